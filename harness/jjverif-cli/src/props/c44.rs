//! C44 — text truncation and wrapping respect the width (`jj_cli::text_util`).
//!
//! Width in the oracle = the per-character sum `Σ char.width().unwrap_or(0)` (unicode-width
//! 0.2.2), the measure the anchored cutting functions implement.  The property text does not define
//! "width"; the string-level `UnicodeWidthStr::width` differs on control characters and emoji /
//! variation-selector sequences (measured: DESIGN §8 F4).  `write_truncated_*` / `write_padded_*`
//! take their fit decision with the string-level measure: for those functions the oracle flags only
//! inputs on which both measures agree, the rest is tallied under `str-level-vs-char-sum`.
//! For wrapping, `textwrap::core::display_width` additionally skips ANSI escape sequences: lines
//! containing ESC are tallied, not flagged.
//!
//! Oracle (from the property text):
//!   width    — output never wider than requested (wrap: unless the line is one unbreakable word);
//!   reported — the width returned is the width of what was returned;
//!   fits     — text that already fits comes back unchanged (wrap: up to the spaces at the end of a
//!              line, which wrapping consumes — documented by the unit tests of `wrap_bytes`);
//!   chars    — no character is split: the output is valid UTF-8 and is made of a contiguous piece
//!              of the ellipsis and a prefix / suffix of the text (pad: fill* text fill*).
use crate::rt::*;
use jj_cli::formatter::{FormatRecorder, Formatter as _, PlainTextFormatter};
use jj_cli::text_util::{
    elide_end, elide_start, wrap_bytes, write_padded_centered, write_padded_end, write_padded_start, write_truncated_end,
    write_truncated_start, write_wrapped,
};
use std::io::Write as _;
use unicode_width::{UnicodeWidthChar as _, UnicodeWidthStr as _};

fn cw(c: char) -> usize { c.width().unwrap_or(0) }
fn w(s: &str) -> usize { s.chars().map(cw).sum() }
fn enc(s: &str) -> String {
    if s.is_empty() { "-".into() } else { s.chars().map(|c| format!("{}.{}", c as u32, cw(c))).collect::<Vec<_>>().join(",") }
}
fn cps(s: &str) -> String {
    if s.is_empty() { "-".into() } else { s.chars().map(|c| (c as u32).to_string()).collect::<Vec<_>>().join(",") }
}

/// record `s` with labels pushed/popped at pseudo-random character boundaries (the data is split
/// into several labelled ranges; the plain-text output must not depend on it)
fn record(s: &str, r: &mut Rng) -> FormatRecorder {
    let mut rec = FormatRecorder::new(false);
    let mut depth = 0;
    let mut buf = [0u8; 4];
    for c in s.chars() {
        match r.below(6) {
            0 => { rec.push_label("a"); depth += 1; }
            1 if depth > 0 => { rec.pop_label(); depth -= 1; }
            _ => {}
        }
        rec.write_all(c.encode_utf8(&mut buf).as_bytes()).unwrap();
    }
    while depth > 0 { rec.pop_label(); depth -= 1; }
    rec
}

fn is_piece_start(out: &str, text: &str, ell: &str) -> bool {
    // out = (contiguous piece of ell) ++ (suffix of text)
    (0..=out.len()).filter(|i| out.is_char_boundary(*i)).any(|i| ell.contains(&out[..i]) && text.ends_with(&out[i..]))
}
fn is_piece_end(out: &str, text: &str, ell: &str) -> bool {
    (0..=out.len()).filter(|i| out.is_char_boundary(*i)).any(|i| text.starts_with(&out[..i]) && ell.contains(&out[i..]))
}

fn elide(out: &mut Out, text: &str, ell: &str, max: usize) {
    for start in [true, false] {
        let dir = if start { "start" } else { "end" };
        let got = guard(|| { let (s, n) = if start { elide_start(text, ell, max) } else { elide_end(text, ell, max) }; (s.into_owned(), n) });
        let req = format!("elide {dir} {max} {} {}", enc(text), enc(ell));
        match got {
            Err(p) => { out.case(&req, "panic"); out.oracle_fail("text:elide-panic", format!("elide_{dir}({text:?}, {ell:?}, {max}) panicked: {p}")); }
            Ok((s, n)) => {
                out.case(&req, &format!("{} w={n}", cps(&s)));
                let fits = w(text) <= max;
                out.tally("elide", if fits { "fits" } else if s.is_empty() { "nothing fits" } else if w(ell) > max { "ellipsis cut" } else { "elided" });
                if !fits { out.nontrivial((text.to_string(), ell.to_string(), max, start)); }
                if s.width() > max { out.tally("str-level-vs-char-sum", "elide: wider than requested only by the string-level measure"); }
                if w(&s) > max { out.oracle_fail("text:elide-wider-than-requested", format!("elide_{dir}({text:?}, {ell:?}, {max}) = {s:?} of width {}", w(&s))); }
                else if n != w(&s) { out.oracle_fail("text:elide-reported-width-wrong", format!("elide_{dir}({text:?}, {ell:?}, {max}) = ({s:?}, {n}) but the string has width {}", w(&s))); }
                else if fits && s != text { out.oracle_fail("text:elide-changed-text-that-fits", format!("elide_{dir}({text:?}, {ell:?}, {max}) = {s:?}")); }
                else if !(if start { is_piece_start(&s, text, ell) } else { is_piece_end(&s, text, ell) }) {
                    out.oracle_fail("text:elide-output-not-made-of-input-pieces", format!("elide_{dir}({text:?}, {ell:?}, {max}) = {s:?}")); }
                else { out.oracle_ok(); }
            }
        }
    }
}

fn trunc(out: &mut Out, text: &str, ell: &str, max: usize, r: &mut Rng) {
    for start in [true, false] {
        let dir = if start { "start" } else { "end" };
        let (rt, re) = (record(text, r), record(ell, r));
        let got = guard(|| {
            let mut buf = Vec::new();
            let mut f = PlainTextFormatter::new(&mut buf);
            let n = if start { write_truncated_start(&mut f, &rt, &re, max) } else { write_truncated_end(&mut f, &rt, &re, max) }.unwrap();
            drop(f);
            (buf, n)
        });
        let req = format!("trunc {dir} {max} {} {} {} {}", text.width(), ell.width(), enc(text), enc(ell));
        match got {
            Err(p) => { out.case(&req, "panic"); out.oracle_fail("text:truncate-panic", format!("write_truncated_{dir}({text:?}, {ell:?}, {max}) panicked: {p}")); }
            Ok((buf, n)) => {
                let Ok(s) = String::from_utf8(buf.clone()) else {
                    out.case(&req, "invalid-utf8");
                    out.oracle_fail("text:truncate-split-character", format!("write_truncated_{dir}({text:?}, {ell:?}, {max}) wrote invalid UTF-8 {buf:?}"));
                    continue;
                };
                out.case(&req, &format!("{} w={n}", cps(&s)));
                let agree = text.width() == w(text) && ell.width() == w(ell);
                let fits = w(text) <= max;
                out.tally("truncate", if !agree { "measures differ on the input" } else if fits { "fits" } else { "truncated" });
                if !fits { out.nontrivial((text.to_string(), ell.to_string(), max, start, 1)); }
                let verdict: Option<(&str, String)> =
                    if fits && s != text {
                        let lead: String = text.chars().take_while(|c| cw(*c) == 0).collect();
                        if start && !lead.is_empty() && s == text[lead.len()..] { Some(("text:truncate-start-drops-leading-zero-width-chars-of-text-that-fits", format!("= {s:?}"))) }
                        else { Some(("text:truncate-changed-text-that-fits", format!("= {s:?}"))) } }
                    else if w(&s) > max { Some(("text:truncate-wider-than-requested", format!("= {s:?} of width {}", w(&s)))) }
                    else if n != w(&s) { Some(("text:truncate-reported-width-wrong", format!("= ({s:?}, {n}) but the string has width {}", w(&s)))) }
                    else if !(if start { is_piece_start(&s, text, ell) } else { is_piece_end(&s, text, ell) }) { Some(("text:truncate-output-not-made-of-input-pieces", format!("= {s:?}"))) }
                    else { None };
                // a text that fits by *both* measures fits, whatever "width" means: judged even when the
                // measures differ elsewhere
                let fits_both = fits && text.width() <= max;
                match verdict {
                    None => out.oracle_ok(),
                    Some((sig, d)) if agree || (fits_both && sig.contains("text-that-fits")) => {
                        // the runtime keeps the first 25 failures only: should the (repaired, formerly frequent)
                        // defect return, report a few occurrences and count the rest, so that a different
                        // failure is never crowded out
                        static REPORTED: std::sync::atomic::AtomicU64 = std::sync::atomic::AtomicU64::new(0);
                        if sig != "text:truncate-start-drops-leading-zero-width-chars-of-text-that-fits"
                            || REPORTED.fetch_add(1, std::sync::atomic::Ordering::Relaxed) < 4 {
                            out.oracle_fail(sig, format!("write_truncated_{dir}({text:?}, {ell:?}, {max}) {d}"));
                        } else {
                            out.tally("further occurrences of a reported signature", sig);
                        }
                    }
                    Some((sig, _)) => { out.tally("str-level-vs-char-sum", &format!("not flagged: {sig}")); out.oracle_ok(); }
                }
            }
        }
    }
}

fn pad(out: &mut Out, text: &str, fill: &str, min: usize, r: &mut Rng) {
    for dir in ["start", "end", "center"] {
        let rt = record(text, r);
        let rf = FormatRecorder::with_data(fill);
        let got = guard(|| {
            let mut buf = Vec::new();
            let mut f = PlainTextFormatter::new(&mut buf);
            match dir { "start" => write_padded_start(&mut f, &rt, &rf, min), "end" => write_padded_end(&mut f, &rt, &rf, min), _ => write_padded_centered(&mut f, &rt, &rf, min) }.unwrap();
            drop(f);
            buf
        });
        let req = format!("pad {dir} {min} {} {} {}", text.width(), enc(text), enc(fill));
        match got {
            Err(p) => { out.case(&req, "panic"); out.oracle_fail("text:pad-panic", format!("write_padded_{dir}({text:?}, {fill:?}, {min}) panicked: {p}")); }
            Ok(buf) => {
                let Ok(s) = String::from_utf8(buf.clone()) else {
                    out.case(&req, "invalid-utf8");
                    out.oracle_fail("text:pad-split-character", format!("write_padded_{dir}({text:?}, {fill:?}, {min}) wrote invalid UTF-8"));
                    continue;
                };
                out.case(&req, &cps(&s));
                let agree = text.width() == w(text);
                let unit_fill = w(fill) == 1 && fill.chars().count() == 1;
                out.tally("pad", if !agree { "measures differ on the input" } else if !unit_fill { "fill is not one 1-wide character" } else if w(text) >= min { "fits" } else { "padded" });
                if w(text) < min { out.nontrivial((text.to_string(), fill.to_string(), min, dir)); }
                let want = min.max(w(text));
                let shape_ok = match dir {
                    "start" => s.ends_with(text) && s[..s.len() - text.len()].chars().all(|c| fill.contains(c)),
                    "end" => s.starts_with(text) && s[text.len()..].chars().all(|c| fill.contains(c)),
                    _ => s.contains(text),
                };
                let verdict: Option<(&str, String)> =
                    if !shape_ok { Some(("text:pad-changed-the-text", format!("= {s:?}"))) }
                    else if w(text) >= min && s != text { Some(("text:pad-changed-text-that-fits", format!("= {s:?}"))) }
                    else if unit_fill && w(&s) != want { Some(("text:pad-wrong-width", format!("= {s:?} of width {} instead of {want}", w(&s)))) }
                    else { None };
                match verdict {
                    None => out.oracle_ok(),
                    Some((sig, d)) if agree => out.oracle_fail(sig, format!("write_padded_{dir}({text:?}, {fill:?}, {min}) {d}")),
                    Some((sig, _)) => { out.tally("str-level-vs-char-sum", &format!("not flagged: {sig}")); out.oracle_ok(); }
                }
            }
        }
    }
}

fn wrap(out: &mut Out, text: &str, width: usize, r: &mut Rng) {
    let rec = record(text, r);
    let got = guard(|| {
        let lines: Vec<Vec<u8>> = wrap_bytes(text.as_bytes(), width).into_iter().map(|l| l.to_vec()).collect();
        let mut buf = Vec::new();
        let mut f = PlainTextFormatter::new(&mut buf);
        write_wrapped(&mut f, &rec, width).unwrap();
        drop(f);
        (lines, buf)
    });
    let req = format!("wrap {width} {}", enc(text));
    match got {
        Err(p) => { out.case(&req, "panic"); out.oracle_fail("text:wrap-panic", format!("wrap_bytes({text:?}, {width}) panicked: {p}")); }
        Ok((lines, written)) => {
            let mut strs = vec![];
            for l in &lines {
                match String::from_utf8(l.clone()) {
                    Ok(s) => strs.push(s),
                    Err(_) => { out.case(&req, "invalid-utf8"); out.oracle_fail("text:wrap-split-character", format!("wrap_bytes({text:?}, {width}) produced a line that is not UTF-8: {l:?}")); return; }
                }
            }
            out.case(&req, &strs.iter().map(|s| cps(s)).collect::<Vec<_>>().join(";"));
            let in_lines: Vec<&str> = text.split('\n').collect();
            if strs.len() > in_lines.len() { out.nontrivial((text.to_string(), width)); }
            out.tally("wrap", if strs.len() > in_lines.len() { "broke a line" } else { "nothing to break" });
            let mut fail: Option<(&str, String)> = None;
            // write_wrapped writes exactly the lines of wrap_bytes
            if written != strs.join("\n").into_bytes() { fail = Some(("text:write-wrapped-differs-from-wrap-bytes", format!("write_wrapped wrote {:?}", String::from_utf8_lossy(&written)))); }
            // width
            for l in &strs {
                if l.contains('\u{1b}') { out.tally("wrap", "line with ESC (ANSI-aware measure): not judged"); continue; }
                if w(l) > width {
                    if l.contains(' ') { fail = Some(("text:wrap-line-wider-than-requested", format!("line {l:?} has width {} and is not a single word", w(l)))); }
                    else { out.tally("wrap", "single unbreakable word wider than the width"); }
                }
            }
            // nothing but spaces / line structure is consumed
            let strip = |s: &str| s.chars().filter(|c| *c != ' ' && *c != '\n').collect::<String>();
            if strip(&strs.join("\n")) != strip(text) { fail = Some(("text:wrap-lost-or-invented-characters", format!("lines {strs:?}"))); }
            if strs.len() < in_lines.len() { fail = Some(("text:wrap-removed-a-newline", format!("{} lines from {} input lines", strs.len(), in_lines.len()))); }
            // fits ⇒ unchanged (up to the spaces at the end of each line)
            if !text.contains('\u{1b}') && in_lines.iter().all(|l| w(l) <= width) {
                let want: Vec<&str> = in_lines.iter().map(|l| l.trim_end_matches(' ')).collect();
                if strs != want { fail = Some(("text:wrap-changed-text-that-fits", format!("lines {strs:?}, expected {want:?}"))); }
            }
            match fail {
                None => out.oracle_ok(),
                Some((sig, d)) => out.oracle_fail(sig, format!("wrap_bytes({text:?}, {width}): {d}")),
            }
        }
    }
}

fn rand_str(r: &mut Rng, alphabet: &[char], max_len: usize) -> String {
    (0..r.below(max_len + 1)).map(|_| *r.pick(alphabet)).collect()
}

pub fn run(cfg: &Cfg, out: &mut Out) {
    // Part 1 — exhaustive: every text of ≤ 3 characters over {a, 日, U+0301, TAB, ✈, U+FE0F} × ellipses × widths
    let small: Vec<char> = "a日\u{301}\t✈\u{fe0f}".chars().collect();
    let ells = ["", ".", "…", "日", "..", "\u{301}.", ".\u{301}"];
    let mut texts = vec![String::new()];
    let mut layer = vec![String::new()];
    for _ in 0..3 {
        let mut next = vec![];
        for t in &layer { for c in &small { let mut s = t.clone(); s.push(*c); next.push(s); } }
        texts.extend(next.iter().cloned());
        layer = next;
    }
    let mut r0 = cfg.rng(440);
    // Part 0 — fixed scenarios: the reproducers of the former finding
    // `text:truncate-start-drops-leading-zero-width-chars-of-text-that-fits` (repaired in /repo 645211a:
    // zero-width characters are skipped only after a removed character).  Text that fits must come
    // back unchanged; if the defect returns these cases fail the oracle with that signature, which
    // known_findings.json lists as `fixed` (suppresses nothing) ⇒ VIOLATION.
    for (t, e, max) in [("\u{301}a", "", 4), ("\tfoo", "", 10), ("\u{301}a", "…", 1), ("\u{200d}\u{301}日", ".", 2),
                        // truncated: the zero-width characters after the cut still go with the removed character
                        ("a\u{301}bc", "", 2), ("a\u{301}bc", "…", 3)] {
        trunc(out, t, e, max, &mut r0);
        elide(out, t, e, max);
    }
    for t in &texts { for e in ells { for max in 0..=4 {
        elide(out, t, e, max);
        if t.chars().count() <= 2 || cfg.tier == Tier::Thorough { trunc(out, t, e, max, &mut r0); }
    } } }
    for t in texts.iter().filter(|t| t.chars().count() <= 2) { for min in 0..=4 { pad(out, t, "-", min, &mut r0); } }
    out.note("exhaustive: elide_start/elide_end on every text of ≤ 3 chars over {a, 日, U+0301, TAB, ✈, U+FE0F} × 7 ellipses × widths 0..4 (write_truncated_* for ≤ 2 chars quick / ≤ 3 thorough; write_padded_* for ≤ 2 chars × widths 0..4); then random".into());
    // Part 2 — random
    let alphabet: Vec<char> = "abcxyz 日本語é\u{301}\u{300}\u{200d}👩\u{1f3fd}\u{fe0f}\u{fe0e}✈❤\t\u{7}\u{ad}\u{200b}\u{1160}🇯🇵".chars().collect();
    let plain: Vec<char> = "abcdefg日本é\u{301}".chars().collect();
    let ell_alpha: Vec<char> = ".…日\u{301}>✈\u{fe0f}".chars().collect();
    let mut r = cfg.rng(44);
    let n = cfg.n(6000, 150_000);
    for i in 0..n {
        let max_len = 2 + (i * 14 / n.max(1)) as usize;
        let alpha = if r.chance(1, 3) { &plain } else { &alphabet };
        let text = rand_str(&mut r, alpha, max_len);
        let ell = rand_str(&mut r, &ell_alpha, 3);
        let max = r.below(w(&text) + 3);
        elide(out, &text, &ell, max);
        trunc(out, &text, &ell, max, &mut r);
        if i % 2 == 0 {
            let fill = if r.chance(5, 6) { r.pick(&['-', ' ', '*', '·']).to_string() } else { r.pick(&['日', '\u{301}', '\t']).to_string() };
            pad(out, &text, &fill, r.below(w(&text) + 6), &mut r);
        }
    }
    // wrapping: words over a small alphabet, runs of spaces, newlines, now and then an ANSI escape sequence
    let word_alpha: Vec<char> = "ab日é\u{301}✈".chars().collect();
    let nw = cfg.n(6000, 150_000);
    for i in 0..nw {
        let nwords = 1 + (i * 10 / nw.max(1)) as usize + r.below(3);
        let mut text = String::new();
        if r.chance(1, 6) { text.push_str(&" ".repeat(r.range(1, 3))); }
        for k in 0..nwords {
            if k > 0 {
                match r.below(10) { 0 => text.push('\n'), 1 => { text.push_str(" \n"); } 2 => text.push_str(&" ".repeat(r.range(2, 4))), _ => text.push(' ') }
            }
            if r.chance(1, 25) { text.push_str(if r.chance(1, 2) { "\u{1b}[31m" } else { "\u{1b}]8;;x\u{7}" }); }
            text.push_str(&rand_str(&mut r, &word_alpha, 5));
        }
        if r.chance(1, 6) { text.push_str(if r.chance(1, 2) { " " } else { "\n" }); }
        let width = r.below(14);
        wrap(out, &text, width, &mut r);
    }
}
