//! C09 (CLI stream) — moving changes down a stack never alters the snapshots above it, observed on
//! the real `jj` command line.
//!
//! The primary stream (`harness/jjverif/src/props/c09.rs`) calls the library and *replicates* the split
//! command; this stream runs the real binary (`$JJ_VERIF_JJ_BIN`), so the command code itself
//! (`cli/src/commands/{split,squash,absorb}.rs`) is under the check.
//!
//! Per world: a small stack built with `jj commit` (2–4 commits over the root, sometimes a side branch
//! merged on top, the working-copy commit on top, files on disk); the state is read in-process
//! (`RepoLoader::load_at_head`, trees decoded to the model's tree syntax).  Per operation the workspace
//! directory is copied and ONE command is run on the copy:
//!   * `jj split -r X -m … <paths>` (sequential), `split.legacy-bookmark-behavior` true and false
//!     → request `split …` of `lean/JjModel/Drv/C09.lean` (tree of every commit afterwards);
//!   * `jj squash --from X --into X- -u` (whole commit) → request `squash …`;
//!   * `jj split --parallel`, `jj squash … <paths>`, `jj absorb --from X` → oracle only.
//! Commits are followed through the command by change id (the second split commit by description).
//! Oracle (property text): the topmost resulting commit and every commit purely above it (incl. `@`)
//! keep their trees, the files on disk are untouched; commits that do not descend from a receiving commit
//! are not rewritten at all; squash destination = squashed tree; first split commit = the selection.
#[path = "../clih.rs"]
mod clih;
#[allow(dead_code)]
#[path = "../../../jjverif/src/props/tree_common.rs"]
mod tree_common;
use crate::rt::*;
use clih::*;
use jj_lib::backend::{ChangeId, CommitId};
use jj_lib::commit::Commit;
use jj_lib::object_id::ObjectId as _;
use jj_lib::ref_name::WorkspaceName;
use jj_lib::repo::{ReadonlyRepo, Repo as _, RepoLoader};
use pollster::FutureExt as _;
use std::collections::{BTreeMap, BTreeSet, HashMap};
use std::path::{Path, PathBuf};
use std::sync::Arc;
use tree_common::*;

struct Rec {
    req: Option<String>,
    resp: String,
    tallies: Vec<(&'static str, String)>,
    nontrivial: Option<String>,
    oracle_ok: u32,
    fails: Vec<(String, String)>,
}
impl Rec {
    fn new() -> Rec { Rec { req: None, resp: String::new(), tallies: vec![], nontrivial: None, oracle_ok: 0, fails: vec![] } }
}

/// the visible commits of a workspace, read in-process
struct Snap {
    repo: Arc<ReadonlyRepo>,
    by_desc: HashMap<String, Vec<Commit>>,
    by_change: HashMap<ChangeId, Vec<Commit>>,
    wc: Option<CommitId>,
}

fn snapshot(ws: &Path) -> Result<Snap, String> {
    let settings = testutils::user_settings();
    let loader = RepoLoader::init_from_file_system(&settings, &ws.join(".jj").join("repo"), &jj_lib::default_backend_factories::default_backend_factories())
        .map_err(|e| format!("open repo: {e}"))?;
    let repo = loader.load_at_head().block_on().map_err(|e| format!("load repo: {e}"))?;
    let root = repo.store().root_commit_id().clone();
    let mut stack: Vec<CommitId> = repo.view().heads().iter().cloned().collect();
    stack.sort();
    let mut seen = BTreeSet::new();
    let (mut by_desc, mut by_change): (HashMap<String, Vec<Commit>>, HashMap<ChangeId, Vec<Commit>>) = Default::default();
    while let Some(id) = stack.pop() {
        if id == root || !seen.insert(id.clone()) { continue; }
        let c = repo.store().get_commit(&id).map_err(|e| e.to_string())?;
        for p in c.parent_ids() { stack.push(p.clone()); }
        by_desc.entry(c.description().to_string()).or_default().push(c.clone());
        by_change.entry(c.change_id().clone()).or_default().push(c);
    }
    let wc = repo.view().get_wc_commit_id(WorkspaceName::DEFAULT).cloned();
    Ok(Snap { repo, by_desc, by_change, wc })
}

fn nosym(t: &MTree) -> MTree {
    t.iter().map(|(n, v)| (*n, match v { V::S(k) => V::F(*k, false), V::T(s) => V::T(nosym(s)), v => v.clone() })).collect()
}

fn write_tree(dir: &Path, t: &MTree) {
    use std::os::unix::fs::PermissionsExt;
    for (n, v) in t {
        let p = dir.join(n.to_string());
        match v {
            V::F(id, x) => {
                std::fs::write(&p, content(*id)).unwrap();
                std::fs::set_permissions(&p, std::fs::Permissions::from_mode(if *x { 0o755 } else { 0o644 })).unwrap();
            }
            V::T(s) => { std::fs::create_dir_all(&p).unwrap(); write_tree(&p, s); }
            V::S(_) => unreachable!("no symlinks in this stream"),
        }
    }
}
/// make the files of the workspace exactly `t`
fn materialize(ws: &Path, t: &MTree) {
    for e in std::fs::read_dir(ws).unwrap().flatten() {
        if e.file_name() == ".jj" { continue; }
        let p = e.path();
        if p.is_dir() { std::fs::remove_dir_all(&p).unwrap(); } else { std::fs::remove_file(&p).unwrap(); }
    }
    write_tree(ws, t);
}
fn copy_dir(from: &Path, to: &Path) {
    std::fs::create_dir_all(to).unwrap();
    for e in std::fs::read_dir(from).unwrap().flatten() {
        let (src, dst) = (e.path(), to.join(e.file_name()));
        let md = std::fs::symlink_metadata(&src).unwrap();
        if md.is_dir() { copy_dir(&src, &dst); } else if md.is_file() { std::fs::copy(&src, &dst).unwrap(); }
    }
}

fn show_hist(h: &[(Vec<usize>, Vec<MTree>)]) -> String {
    h.iter().map(|(ps, ts)| {
        let p = if ps.is_empty() { "-".to_string() } else { ps.iter().map(|x| x.to_string()).collect::<Vec<_>>().join(".") };
        format!("{p}={}", show_trees(ts))
    }).collect::<Vec<_>>().join(",")
}
fn is_anc(h: &[(Vec<usize>, Vec<MTree>)], a: usize, c: usize) -> bool { a == c || h[c].0.iter().any(|p| is_anc(h, a, *p)) }
fn desc_of(i: usize) -> String { format!("c{i}\n") }

/// changed paths that can be selected with a prefix fileset: every proper prefix is a directory on both sides
fn candidates(pt: &MTree, ct: &MTree) -> Vec<Vec<u64>> {
    let mut paths = BTreeSet::new();
    all_paths(pt, &mut vec![], &mut paths);
    all_paths(ct, &mut vec![], &mut paths);
    paths.into_iter().filter(|p| get(pt, p) != get(ct, p)
        && (1..p.len()).all(|k| matches!(get(pt, &p[..k]), Some(V::T(_))) && matches!(get(ct, &p[..k]), Some(V::T(_))))).collect()
}
fn fileset_arg(p: &[u64]) -> String { format!("root:\"{}\"", p.iter().map(|n| n.to_string()).collect::<Vec<_>>().join("/")) }

#[derive(Clone, Copy, PartialEq, Debug)]
enum Op { SplitSeq { legacy: bool }, SplitPar { legacy: bool }, SquashWhole, SquashPaths, Absorb }

struct World {
    env: Env,
    ws: PathBuf,
    sc: &'static str,
    /// parents and tree terms of every commit in creation order; 0 = root; the last one is `@`
    hist: Vec<(Vec<usize>, Vec<MTree>)>,
    commits: Vec<Commit>,
    disk: BTreeMap<String, (bool, Vec<u8>)>,
}

fn build_world(seed: u64, idx: u64, r: &mut Rng, rec0: &mut Rec) -> Result<World, String> {
    let mut env = Env::new("c09", seed.wrapping_mul(1000).wrapping_add(idx));
    let sc = if r.chance(2, 3) { "accept" } else { "keep" };
    let mut cfg_text = std::fs::read_to_string(&env.cfg).unwrap();
    cfg_text += &format!("[merge]\nsame-change = \"{sc}\"\n");
    std::fs::write(&env.cfg, cfg_text).unwrap();
    let root = env.root.clone();
    let res = env.jj(&root, &["git", "init", "ws"]);
    if res.code != 0 { return Err(format!("jj git init: {}", res.err)); }
    let ws = root.join("ws");
    let pal = Palette::new(r);
    let edit = |r: &mut Rng, t: &MTree| { let t1 = pal.mutate(r, t); nosym(&if r.chance(1, 2) { pal.mutate(r, &t1) } else { t1 }) };
    let k = r.range(2, 4);
    let mut t = nosym(&pal.tree(r, pal.max_depth));
    if t.is_empty() { t = vec![(0, V::F(0, false))]; }
    let mut planned: Vec<MTree> = vec![vec![]];
    for i in 1..=k {
        materialize(&ws, &t);
        let res = env.jj(&ws, &["commit", "-m", &format!("c{i}")]);
        if res.code != 0 { return Err(format!("jj commit: {}", res.err)); }
        planned.push(t.clone());
        t = edit(r, &t);
    }
    let mut n = k + 1;
    if r.chance(1, 4) {
        // a side branch forking anywhere below, merged with the chain in the working-copy commit
        let j = r.below(k + 1);
        let from = if j == 0 { "root()".to_string() } else { format!("description(exact:\"c{j}\\n\")") };
        let res = env.jj(&ws, &["new", &from, "-m", &format!("c{}", k + 1)]);
        if res.code != 0 { return Err(format!("jj new (side): {}", res.err)); }
        let side = edit(r, &planned[j]);
        materialize(&ws, &side);
        let res = env.jj(&ws, &["new", &format!("description(exact:\"c{k}\\n\")"), "@", "-m", &format!("c{}", k + 2)]);
        if res.code != 0 { return Err(format!("jj new (merge): {}", res.err)); }
        n = k + 2;
        rec0.tallies.push(("cli.stack", "side-branch-merged-in-@".into()));
    } else {
        materialize(&ws, &t);
        let res = env.jj(&ws, &["describe", "-m", &format!("c{}", k + 1)]);
        if res.code != 0 { return Err(format!("jj describe: {}", res.err)); }
        rec0.tallies.push(("cli.stack", "chain".into()));
    }
    // read the state back
    let snap = snapshot(&ws)?;
    let mut conv = Conv::new(snap.repo.store().clone());
    let root_commit = snap.repo.store().root_commit();
    let mut commits = vec![root_commit];
    for i in 1..=n {
        match snap.by_desc.get(&desc_of(i)).map(|v| v.as_slice()) {
            Some([c]) => commits.push(c.clone()),
            other => return Err(format!("commit c{i} not found exactly once ({:?})", other.map(|v| v.len()))),
        }
    }
    if snap.wc.as_ref() != Some(commits[n].id()) { return Err("the working-copy commit is not the last commit".into()); }
    let index_of: HashMap<CommitId, usize> = commits.iter().enumerate().map(|(i, c)| (c.id().clone(), i)).collect();
    let mut hist = vec![(vec![], vec![vec![]])];
    for c in &commits[1..] {
        let ps: Option<Vec<usize>> = c.parent_ids().iter().map(|p| index_of.get(p).copied()).collect();
        let ps = ps.ok_or("unknown parent")?;
        let ts = conv.read_merged(&c.tree())?;
        hist.push((ps, ts));
    }
    let disk = disk_state(&ws);
    Ok(World { env, ws, sc, hist, commits, disk })
}

/// one command on a copy of the world
fn run_op(w: &mut World, r: &mut Rng, op_no: usize, op: Op) -> Option<Rec> {
    let rec = run_op_in_copy(w, r, op_no, op);
    // the copy is read (in-process) until the end of the case
    let _ = std::fs::remove_dir_all(w.env.root.join(format!("op{op_no}")));
    rec
}

fn run_op_in_copy(w: &mut World, r: &mut Rng, op_no: usize, op: Op) -> Option<Rec> {
    let mut rec = Rec::new();
    let n = w.hist.len() - 1;
    let h = &w.hist;
    let single_nonroot_parent = |c: usize| h[c].0.len() == 1 && h[c].0[0] != 0;
    let cands: Vec<usize> = (1..=n).filter(|c| match op { Op::SquashWhole | Op::SquashPaths => single_nonroot_parent(*c), _ => true }).collect();
    if cands.is_empty() { return None; }
    // mostly a commit with descendants
    let with_desc: Vec<usize> = cands.iter().copied().filter(|c| *c < n).collect();
    let x = if !with_desc.is_empty() && r.chance(3, 4) { *r.pick(&with_desc) } else { *r.pick(&cands) };
    let snap0 = snapshot(&w.ws).ok()?;
    let mut conv0 = Conv::new(snap0.repo.store().clone());
    let old = &w.commits;
    let ct_terms = h[x].1.clone();
    let pt_terms = match guard(|| old[x].parent_tree(snap0.repo.as_ref()).block_on()) { Ok(Ok(t)) => conv0.read_merged(&t).ok()?, _ => return None };
    let hs = show_hist(h);
    let xid = old[x].id().hex();

    // the command, the request (if the model has this operation), the receivers
    let mut args: Vec<String> = vec![];
    let mut receivers: Vec<usize> = vec![];
    let mut selection: Option<MTree> = None;
    let mut all_selected = false;
    match op {
        Op::SplitSeq { legacy } | Op::SplitPar { legacy } => {
            if pt_terms.len() != 1 || ct_terms.len() != 1 { return None; }
            let (pt, ct) = (&pt_terms[0], &ct_terms[0]);
            let cs = candidates(pt, ct);
            let mut picked: Vec<Vec<u64>> = cs.iter().filter(|_| r.chance(1, 2)).cloned().collect();
            let chosen = picked.clone();
            picked.retain(|p| !chosen.iter().any(|q| q.len() < p.len() && p.starts_with(q)));
            let mut sel = pt.clone();
            for p in &picked { set(&mut sel, p, get(ct, p)); }
            args = vec!["split".into(), format!("--config=split.legacy-bookmark-behavior={legacy}"), "-r".into(), xid.clone(), "-m".into(), format!("first c{x}")];
            if matches!(op, Op::SplitPar { .. }) { args.push("--parallel".into()); }
            if picked.is_empty() { args.push(fileset_arg(&[9])); }
            for p in &picked { args.push(fileset_arg(p)); }
            if matches!(op, Op::SplitSeq { .. }) { rec.req = Some(format!("split {} {hs} {x} {}", w.sc, show_tree(&sel))); }
            rec.tallies.push(("cli.split.selection", if sel == *pt { "nothing" } else if sel == *ct { "everything" } else { "part" }.into()));
            selection = Some(sel);
            receivers.push(x);
        }
        Op::SquashWhole => {
            args = vec!["squash".into(), "--from".into(), xid.clone(), "--into".into(), format!("{xid}-"), "-u".into()];
            rec.req = Some(format!("squash {} {hs} {x}", w.sc));
            receivers.push(h[x].0[0]);
        }
        Op::SquashPaths => {
            if pt_terms.len() != 1 || ct_terms.len() != 1 { return None; }
            let cs = candidates(&pt_terms[0], &ct_terms[0]);
            let top: BTreeSet<u64> = cs.iter().map(|p| p[0]).collect();
            let picked: Vec<u64> = top.iter().copied().filter(|_| r.chance(1, 2)).collect();
            if picked.is_empty() { return None; }
            all_selected = picked.len() == top.len();
            args = vec!["squash".into(), "--from".into(), xid.clone(), "--into".into(), format!("{xid}-"), "-u".into()];
            for p in &picked { args.push(fileset_arg(&[*p])); }
            receivers.push(h[x].0[0]);
        }
        Op::Absorb => {
            args = vec!["absorb".into(), "--from".into(), xid.clone()];
            receivers = (1..=n).filter(|a| *a != x && is_anc(h, *a, x)).collect();
            if receivers.is_empty() { return None; }
        }
    }
    let dir = w.env.root.join(format!("op{op_no}"));
    copy_dir(&w.ws, &dir);
    let argv: Vec<&str> = args.iter().map(|s| s.as_str()).collect();
    let res = w.env.jj(&dir, &argv);
    let what = format!("jj {} [stack {hs}, X = commit {x}, same-change {}]", args.join(" "), w.sc);
    rec.tallies.push(("cli.op", format!("{op:?}")));
    if res.code != 0 {
        rec.resp = "err".into();
        rec.tallies.push(("cli.result", "command-failed".into()));
        // jj's own `debug_assert_eq!(re_merged, simplified)` in MergedTree::resolve (merged_tree.rs) is C07's known
        // finding `tree-merge:resolve-debug-assert-remerge-differs`, reached here through the command line
        let sig = if res.err.contains("merged_tree.rs") && res.err.contains("assertion `left == right` failed") {
            "tree-merge:resolve-debug-assert-remerge-differs"
        } else {
            "stack-edit:command-failed"
        };
        rec.fails.push((sig.into(), format!("{what}: exit {} {}", res.code, res.err.replace('\n', " | "))));
        return Some(rec);
    }
    let snap1 = match snapshot(&dir) { Ok(s) => s, Err(e) => { rec.resp = "err".into(); rec.fails.push(("stack-edit:repo-unreadable-after-command".into(), format!("{what}: {e}"))); return Some(rec); } };
    let disk1 = disk_state(&dir);
    let mut conv1 = Conv::new(snap1.repo.store().clone());
    // follow every old commit by change id
    let mut now: Vec<Option<Commit>> = vec![Some(old[0].clone())];
    for c in &old[1..] {
        match snap1.by_change.get(c.change_id()).map(|v| v.as_slice()) {
            None | Some([]) => now.push(None),
            Some([c1]) => now.push(Some(c1.clone())),
            Some(_) => { rec.resp = "divergent".into(); rec.fails.push(("stack-edit:divergent-change-after-command".into(), what.clone())); return Some(rec); }
        }
    }
    let second: Option<Commit> = if matches!(op, Op::SplitSeq { .. } | Op::SplitPar { .. }) {
        match snap1.by_desc.get(&desc_of(x)).map(|v| v.as_slice()) { Some([c]) if c.change_id() != old[x].change_id() => Some(c.clone()), _ => None }
    } else { None };
    // the implementation's answer in the model's terms
    let mut shown = vec![];
    let mut undecodable = None;
    // (oracle-only commands may create file contents outside the model's alphabet — absorb moves single lines)
    for c in now.iter().chain(std::iter::once(&second).filter(|s| s.is_some())).filter(|_| rec.req.is_some()) {
        match c { None => shown.push("x".to_string()), Some(c) => match conv1.read_merged(&c.tree()) { Ok(t) => shown.push(show_trees(&t)), Err(e) => { undecodable = Some(e); break; } } }
    }
    if let Some(e) = undecodable { rec.resp = "undecodable".into(); rec.fails.push(("stack-edit:undecodable".into(), format!("{what}: {e}"))); return Some(rec); }
    rec.resp = if rec.req.is_some() { shown.join(",") } else { "oracle-only".to_string() };
    rec.nontrivial = Some(format!("{what}"));

    // --- oracle (property text) ---
    let top = x;
    let desc_of_receiver = |i: usize| receivers.iter().any(|d| is_anc(h, *d, i));
    let mut protected = vec![false; n + 1];
    for i in 1..=n {
        if i == top { protected[i] = true; continue; }
        let ps = &h[i].0;
        protected[i] = ps.iter().any(|p| protected[*p]) && ps.iter().all(|p| protected[*p] || !desc_of_receiver(*p)) && !receivers.contains(&i);
    }
    let mut bad: Option<(&'static str, String)> = None;
    // `split --parallel` is not a split into two *sequential* commits (outside the property text): the descendants, the
    // working-copy commit and hence the files on disk are re-merged over two sibling parents and a conflicted tree may be
    // re-expressed; its tree-preservation clauses are not judged (the structural clauses still are).
    let is_par = matches!(op, Op::SplitPar { .. });
    let mut fail = |sig: &'static str, d: String| {
        let tree_clause = matches!(sig, "stack-edit:descendant-tree-changed" | "stack-edit:working-copy-commit-tree-changed" | "stack-edit:working-copy-files-changed");
        if bad.is_none() && !(is_par && tree_clause) { bad = Some((sig, d)); }
    };
    let same_tree = |a: &Option<Commit>, b: &Commit| a.as_ref().is_some_and(|a| a.tree_ids() == b.tree_ids());
    for i in 1..=n {
        if i == top {
            match op {
                Op::SplitSeq { .. } | Op::SplitPar { .. } => {
                    let first_ok = now[i].as_ref().is_some_and(|f| f.description() == format!("first c{x}\n") && conv1.read_merged(&f.tree()).ok() == selection.clone().map(|s| vec![s]));
                    let second_ok = match (&second, op) {
                        (None, _) => false,
                        (Some(s), Op::SplitSeq { .. }) => s.tree_ids() == old[x].tree_ids() && s.parent_ids() == [now[i].as_ref().map(|f| f.id().clone()).unwrap_or_else(|| old[0].id().clone())],
                        (Some(_), _) => true,
                    };
                    if !(first_ok && second_ok) { fail("stack-edit:split-commits-wrong-trees", format!("{what} -> {}", rec.resp)); }
                }
                Op::SquashWhole => {
                    let p = h[x].0[0];
                    if !(now[i].is_none() && same_tree(&now[p], &old[x])) { fail("stack-edit:squash-destination-differs-from-squashed-tree", format!("{what} -> {}", rec.resp)); }
                }
                Op::SquashPaths => {
                    let p = h[x].0[0];
                    let ok = match &now[i] { Some(c) => c.tree_ids() == old[x].tree_ids(), None => all_selected && same_tree(&now[p], &old[x]) };
                    if !ok { fail("stack-edit:squash-source-tree-changed", format!("{what} -> {}", rec.resp)); }
                }
                Op::Absorb => { if !same_tree(&now[i], &old[x]) { fail("stack-edit:absorb-source-tree-changed", format!("{what} -> {}", rec.resp)); } }
            }
            rec.tallies.push(("cli.commit", "top".into()));
        } else if protected[i] {
            rec.tallies.push(("cli.commit", "above-top".into()));
            // The property speaks of splitting into two *sequential* commits: a `--parallel` split re-merges the
            // descendants over two sibling parents, which may legitimately re-express a conflicted tree; tallied only.
            if matches!(op, Op::SplitPar { .. }) {
                if !same_tree(&now[i], &old[i]) { rec.tallies.push(("cli.not-judged", "parallel-split-descendant-tree-reexpressed".into())); }
            } else if !same_tree(&now[i], &old[i]) { fail("stack-edit:descendant-tree-changed", format!("{what}: commit {i} -> {}", rec.resp)); }
        } else if !desc_of_receiver(i) {
            rec.tallies.push(("cli.commit", "untouched".into()));
            if !now[i].as_ref().is_some_and(|c| c.id() == old[i].id()) { fail("stack-edit:unrelated-commit-rewritten", format!("{what}: commit {i}")); }
        } else {
            rec.tallies.push(("cli.commit", if receivers.contains(&i) { "receiver" } else { "between-or-beside" }.into()));
        }
    }
    // the working-copy commit and the files on disk
    let wc_is_top = top == n;
    if (protected[n] && !wc_is_top) || (wc_is_top && !matches!(op, Op::SplitPar { .. })) {
        let wc_now = snap1.wc.as_ref().and_then(|id| snap1.repo.store().get_commit(id).ok());
        if !wc_now.as_ref().is_some_and(|c| c.tree_ids() == old[n].tree_ids()) { fail("stack-edit:working-copy-commit-tree-changed", format!("{what} -> {}", rec.resp)); }
        if disk1 != w.disk {
            let changed: Vec<&String> = w.disk.keys().chain(disk1.keys()).filter(|k| w.disk.get(*k) != disk1.get(*k)).collect::<BTreeSet<_>>().into_iter().collect();
            fail("stack-edit:working-copy-files-changed", format!("{what}: files that differ on disk afterwards: {changed:?}"));
        }
        rec.tallies.push(("cli.working-copy", if wc_is_top { "is-the-edited-commit" } else { "above-top" }.into()));
    } else {
        rec.tallies.push(("cli.working-copy", "not-constrained".into()));
    }
    let changed_any = (1..=n).any(|i| !now[i].as_ref().is_some_and(|c| c.id() == old[i].id()));
    rec.tallies.push(("cli.result", if changed_any { "rewrote-commits" } else { "nothing-changed" }.into()));
    if op == Op::Absorb { rec.tallies.push(("cli.absorb", if changed_any { "moved-hunks" } else { "nothing-to-absorb" }.into())); }
    match bad { None => rec.oracle_ok += 1, Some((s, d)) => rec.fails.push((s.to_string(), d)) }
    Some(rec)
}

fn run_world(seed: u64, idx: u64) -> (Vec<Rec>, u64) {
    let mut r = Rng(seed.wrapping_mul(0x9E3779B97F4A7C15) ^ (0x0909u64.wrapping_add(idx)).wrapping_mul(0xD1B54A32D192ED03));
    let mut rec0 = Rec::new();
    let mut recs = vec![];
    let mut w = match build_world(seed, idx, &mut r, &mut rec0) {
        Ok(w) => w,
        Err(e) => { rec0.tallies.push(("cli.world", format!("unusable: {}", e.chars().take(60).collect::<String>()))); return (vec![rec0], 0); }
    };
    rec0.tallies.push(("cli.world", "built".into()));
    recs.push(rec0);
    let ops = [Op::SplitSeq { legacy: false }, Op::SplitSeq { legacy: true }, Op::SquashWhole,
               Op::SplitPar { legacy: idx % 2 == 0 }, Op::SquashPaths, Op::Absorb];
    for (k, op) in ops.iter().enumerate() {
        if let Some(rec) = run_op(&mut w, &mut r, k, *op) { recs.push(rec); }
    }
    (recs, w.env.invocations)
}

pub fn run(cfg: &Cfg, out: &mut Out) {
    std::panic::set_hook(Box::new(|_| {}));
    // throw-away workspaces (removed when each world ends): prefer a RAM-backed directory, as C22 does —
    // every jj command costs several fsyncs (set JJVERIF_KEEP_TMPDIR to keep <root>/scratch/cli-tmp)
    if std::path::Path::new("/dev/shm").is_dir() && std::env::var_os("JJVERIF_KEEP_TMPDIR").is_none() {
        // SAFETY: single-threaded at this point
        unsafe { std::env::remove_var("JJ_VERIF_ROOT"); std::env::set_var("TMPDIR", "/dev/shm"); }
    }
    let worlds = cfg.extra.iter().find_map(|a| a.strip_prefix("worlds=").and_then(|n| n.parse().ok())).unwrap_or(cfg.n(60, 1200) as usize);
    let seed = cfg.seed;
    let t0 = std::time::Instant::now();
    let all = par_map(worlds, |i| match guard(|| run_world(seed, i as u64)) {
        Ok(v) => v,
        Err(e) => { let mut rec = Rec::new(); rec.fails.push(("harness-panic".into(), format!("world {i}: {e}"))); (vec![rec], 0) }
    });
    let mut invocations = 0;
    for (recs, inv) in all {
        invocations += inv;
        for rec in recs {
            match &rec.req {
                Some(req) => { out.case(req, &rec.resp); }
                None => { if !rec.resp.is_empty() { out.impl_only(); } }
            }
            for (c, k) in &rec.tallies { out.tally(c, k); }
            if let Some(k) = &rec.nontrivial { out.nontrivial(k); }
            for _ in 0..rec.oracle_ok { out.oracle_ok(); }
            for (sig, detail) in rec.fails { out.oracle_fail(&sig, detail); }
        }
    }
    out.note(format!("CLI stream: {worlds} stacks built with the real jj binary (2-4 commits, 1 in 4 with a side branch merged in the working-copy commit, files on disk), per stack up to 6 commands each on a fresh copy: split (sequential; split.legacy-bookmark-behavior false and true), squash of a whole commit into its parent, split --parallel, squash with paths, absorb; {invocations} jj invocations, {:.1} s", t0.elapsed().as_secs_f64()));
}
