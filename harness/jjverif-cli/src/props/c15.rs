//! C15 — a crash at any point leaves a loadable repo and loses no committed operation.
//!
//! Fault enumeration on the real `jj` binary (env `JJ_VERIF_JJ_BIN`, built from /repo's working
//! tree with the step-point hooks): for every representative command and EVERY step k of its
//! recorded trace, the command is re-run on a fresh copy of the prepared repository with
//! `JJ_VERIF_CRASH_AT=k` (the process `abort()`s when the k-th storage step is about to be
//! performed), then a fresh, normal `jj` looks at what is left: `op log`, `log`, `status`,
//! `workspace update-stale` when the working copy is reported stale.
//!
//! Correspondence: the recorded trace is abstracted to the model's step alphabet
//! (lean/JjModel/Model/Crash.lean) and sent as `shape …` (does the real write order obey the
//! discipline the theorems assume?) and, per crash point, `predict k …` (which head / visible
//! state / working-copy freshness / recorded working-copy tree+operation does the model predict?).
//! The implementation's answer is what the fresh `jj` processes and the files on disk show.
//!
//! Oracle (from the property text, independent of the model): see `judge_point`.
use crate::rt::{Cfg, Out, Tier};
use std::collections::{BTreeMap, BTreeSet};
use std::path::{Path, PathBuf};
use std::process::{Command, Stdio};
use std::sync::atomic::{AtomicUsize, Ordering};
use std::sync::Mutex;
use std::time::{Duration, Instant};

const LOG_T: &str = r#"change_id ++ " " ++ commit_id ++ " " ++ if(current_working_copy, "@", "-") ++ " p=" ++ parents.map(|c| c.commit_id().short(8)).join(",") ++ " [" ++ description.first_line() ++ "] " ++ bookmarks ++ "\n""#;
const TS: &str = "2001-02-03T04:05:06+07:00";

// ---------------------------------------------------------------------------------------------
// running jj

struct Ctx {
    jj: PathBuf,
    root: PathBuf,
    config: PathBuf,
    home: PathBuf,
}

#[derive(Debug, Default, Clone)]
struct RunOut {
    code: Option<i32>,
    signal: Option<i32>,
    stdout: String,
    stderr: String,
    timed_out: bool,
}
impl RunOut {
    fn ok(&self) -> bool { self.code == Some(0) }
    fn aborted(&self) -> bool { self.signal == Some(6) }
    fn brief(&self) -> String {
        let mut e = self.stderr.replace('\n', " | ");
        e.truncate(300);
        format!("code={:?} sig={:?} timeout={} stderr={}", self.code, self.signal, self.timed_out, e)
    }
}

fn jj(ctx: &Ctx, dir: &Path, args: &[&str], seed: u64, extra: &[(&str, String)]) -> RunOut {
    use std::io::Read as _;
    use std::os::unix::process::ExitStatusExt as _;
    let mut cmd = Command::new(&ctx.jj);
    cmd.current_dir(dir)
        .args(args)
        .env_remove("JJ_VERIF_TRACE")
        .env_remove("JJ_VERIF_CRASH_AT")
        .env("HOME", &ctx.home)
        .env("JJ_CONFIG", &ctx.config)
        .env("JJ_TIMESTAMP", TS)
        .env("JJ_OP_TIMESTAMP", TS)
        .env("JJ_RANDOMNESS_SEED", seed.to_string())
        .env("JJ_OP_HOSTNAME", "host")
        .env("JJ_OP_USERNAME", "user")
        .env("GIT_CONFIG_NOSYSTEM", "1")
        .env("GIT_CONFIG_GLOBAL", "/dev/null")
        .env("RUST_BACKTRACE", "0")
        .stdin(Stdio::null())
        .stdout(Stdio::piped())
        .stderr(Stdio::piped());
    for (k, v) in extra {
        cmd.env(k, v);
    }
    let mut child = match cmd.spawn() {
        Ok(c) => c,
        Err(e) => return RunOut { stderr: format!("spawn failed: {e}"), ..Default::default() },
    };
    let t0 = Instant::now();
    let mut timed_out = false;
    let status = loop {
        match child.try_wait() {
            Ok(Some(st)) => break Some(st),
            Ok(None) => {
                if t0.elapsed() > Duration::from_secs(120) {
                    let _ = child.kill();
                    timed_out = true;
                    break child.wait().ok();
                }
                std::thread::sleep(Duration::from_millis(4));
            }
            Err(_) => break None,
        }
    };
    let mut stdout = String::new();
    let mut stderr = String::new();
    if let Some(mut o) = child.stdout.take() {
        let mut b = Vec::new();
        let _ = o.read_to_end(&mut b);
        stdout = String::from_utf8_lossy(&b).into_owned();
    }
    if let Some(mut o) = child.stderr.take() {
        let mut b = Vec::new();
        let _ = o.read_to_end(&mut b);
        stderr = String::from_utf8_lossy(&b).into_owned();
    }
    RunOut {
        code: status.and_then(|s| s.code()),
        signal: status.and_then(|s| s.signal()),
        stdout,
        stderr,
        timed_out,
    }
}

// ---------------------------------------------------------------------------------------------
// file helpers

fn copy_tree(src: &Path, dst: &Path) -> std::io::Result<()> {
    if dst.exists() {
        std::fs::remove_dir_all(dst)?;
    }
    copy_rec(src, dst)
}

fn copy_rec(src: &Path, dst: &Path) -> std::io::Result<()> {
    std::fs::create_dir_all(dst)?;
    for e in std::fs::read_dir(src)? {
        let e = e?;
        let ft = e.file_type()?;
        let to = dst.join(e.file_name());
        if ft.is_dir() {
            copy_rec(&e.path(), &to)?;
        } else if ft.is_symlink() {
            std::os::unix::fs::symlink(std::fs::read_link(e.path())?, &to)?;
        } else {
            std::fs::copy(e.path(), &to)?;
            // keep the modification time: the working-copy state file records mtimes
            let m = e.metadata()?.modified()?;
            let f = std::fs::OpenOptions::new().write(true).open(&to);
            match f {
                Ok(f) => f.set_modified(m)?,
                Err(_) => {
                    // read-only file (git objects): make it writable for a moment
                    let perm = std::fs::metadata(&to)?.permissions();
                    let mut w = perm.clone();
                    #[allow(clippy::permissions_set_readonly_false)]
                    w.set_readonly(false);
                    std::fs::set_permissions(&to, w)?;
                    std::fs::OpenOptions::new().write(true).open(&to)?.set_modified(m)?;
                    std::fs::set_permissions(&to, perm)?;
                }
            }
        }
    }
    Ok(())
}

/// all regular files below `dir`, keyed by path relative to `dir`
fn walk_files(dir: &Path, rel: &str, skip_top: &[&str], out: &mut BTreeMap<String, Vec<u8>>) {
    let Ok(rd) = std::fs::read_dir(dir) else { return };
    for e in rd.flatten() {
        let name = e.file_name().to_string_lossy().into_owned();
        if rel.is_empty() && skip_top.contains(&name.as_str()) {
            continue;
        }
        let r = if rel.is_empty() { name.clone() } else { format!("{rel}/{name}") };
        match e.file_type() {
            Ok(ft) if ft.is_dir() => walk_files(&e.path(), &r, skip_top, out),
            Ok(ft) if ft.is_file() => {
                out.insert(r, std::fs::read(e.path()).unwrap_or_default());
            }
            _ => {}
        }
    }
}

fn disk_files(ws: &Path) -> BTreeMap<String, Vec<u8>> {
    let mut m = BTreeMap::new();
    walk_files(ws, "", &[".jj", ".git"], &mut m);
    m
}

fn is_final_name(name: &str) -> bool {
    name.len() >= 16 && name.bytes().all(|b| b.is_ascii_hexdigit())
}

/// Stored objects: every file under op_store/, index/ and store/ (except the embedded git repo),
/// keyed by path relative to the workspace root.  Temp files (non-hex names) are kept too.
fn object_files(ws: &Path) -> BTreeMap<String, Vec<u8>> {
    let mut m = BTreeMap::new();
    for sub in ["op_store", "index", "store"] {
        let mut part = BTreeMap::new();
        walk_files(&ws.join(".jj/repo").join(sub), "", &["git"], &mut part);
        for (k, v) in part {
            m.insert(format!(".jj/repo/{sub}/{k}"), v);
        }
    }
    m
}

/// Same stored object?  Byte equality, except for view files: `view_to_proto` serialises the
/// `head_ids` hash set in iteration order, so two complete files of the same view may list the
/// heads in a different order — compare the multiset of top-level protobuf fields instead.
fn same_object(path: &str, a: &[u8], b: &[u8]) -> bool {
    if a == b {
        return true;
    }
    if path.contains("/op_store/views/") {
        if let (Some(mut x), Some(mut y)) = (proto_fields(a), proto_fields(b)) {
            x.sort();
            y.sort();
            return x == y;
        }
    }
    false
}

fn hex(b: &[u8]) -> String { b.iter().map(|x| format!("{x:02x}")).collect() }

/// minimal protobuf reader: (field number, wire type, payload) triples; `None` if malformed/truncated
fn proto_fields(mut b: &[u8]) -> Option<Vec<(u64, u8, Vec<u8>)>> {
    fn varint(b: &mut &[u8]) -> Option<u64> {
        let mut v = 0u64;
        for i in 0..10 {
            let (&x, rest) = b.split_first()?;
            *b = rest;
            v |= ((x & 0x7f) as u64) << (7 * i);
            if x & 0x80 == 0 {
                return Some(v);
            }
        }
        None
    }
    let mut out = vec![];
    while !b.is_empty() {
        let tag = varint(&mut b)?;
        let (field, wt) = (tag >> 3, (tag & 7) as u8);
        let payload = match wt {
            0 => varint(&mut b)?.to_le_bytes().to_vec(),
            1 => {
                if b.len() < 8 { return None; }
                let (p, r) = b.split_at(8);
                b = r;
                p.to_vec()
            }
            2 => {
                let n = varint(&mut b)? as usize;
                if b.len() < n { return None; }
                let (p, r) = b.split_at(n);
                b = r;
                p.to_vec()
            }
            5 => {
                if b.len() < 4 { return None; }
                let (p, r) = b.split_at(4);
                b = r;
                p.to_vec()
            }
            _ => return None,
        };
        out.push((field, wt, payload));
    }
    Some(out)
}

/// working_copy/checkout: operation id (local_working_copy.proto `Checkout.operation_id = 2`)
fn read_checkout_op(ws: &Path) -> Option<String> {
    let b = std::fs::read(ws.join(".jj/working_copy/checkout")).ok()?;
    proto_fields(&b)?.into_iter().find(|f| f.0 == 2 && f.1 == 2).map(|f| hex(&f.2))
}
/// working_copy/tree_state: tree ids (`TreeState.tree_ids = 5`, legacy `= 1`)
fn read_tree_state_tree(ws: &Path) -> Option<String> {
    let b = std::fs::read(ws.join(".jj/working_copy/tree_state")).ok()?;
    let f = proto_fields(&b)?;
    let ids: Vec<String> = f.iter().filter(|f| f.0 == 5 && f.1 == 2).map(|f| hex(&f.2)).collect();
    if !ids.is_empty() {
        return Some(ids.join("+"));
    }
    f.iter().find(|f| f.0 == 1 && f.1 == 2).map(|f| hex(&f.2))
}
/// op_store/operations/<id>: (view id, parents)  (simple_op_store.proto `Operation`)
fn read_operation(ws: &Path, op_hex: &str) -> Option<(String, Vec<String>)> {
    let b = std::fs::read(ws.join(".jj/repo/op_store/operations").join(op_hex)).ok()?;
    let f = proto_fields(&b)?;
    let view = f.iter().find(|f| f.0 == 1 && f.1 == 2).map(|f| hex(&f.2))?;
    let parents = f.iter().filter(|f| f.0 == 2 && f.1 == 2).map(|f| hex(&f.2)).collect();
    Some((view, parents))
}

// ---------------------------------------------------------------------------------------------
// traces

#[derive(Clone, Debug, PartialEq)]
enum Tok {
    View(String),
    Op(String),
    Seg,
    Link(String),
    Ha(String),
    Hr(String),
    Wf,
    St,
    Sc,
    X,
}

#[derive(Clone, Debug)]
struct TraceLine {
    kind: String,
    detail: String, // path relative to the workspace root, or an id
    tok: Tok,
}

fn parse_trace(path: &Path, ws: &Path) -> Vec<TraceLine> {
    let text = std::fs::read_to_string(path).unwrap_or_default();
    let prefix = format!("{}/", ws.display());
    let mut out = vec![];
    for line in text.lines() {
        let mut it = line.splitn(3, ' ');
        let _n = it.next();
        let kind = it.next().unwrap_or("").to_string();
        let detail = it.next().unwrap_or("").to_string();
        let detail = detail.strip_prefix(&prefix).map(|s| s.to_string()).unwrap_or(detail);
        let last = detail.rsplit('/').next().unwrap_or("").to_string();
        let tok = match kind.as_str() {
            "persist-ca" if detail.starts_with(".jj/repo/op_store/views/") => Tok::View(last),
            "persist-ca" if detail.starts_with(".jj/repo/op_store/operations/") => Tok::Op(last),
            "persist-ca" if detail.starts_with(".jj/repo/index/segments/") => Tok::Seg,
            "persist" if detail.starts_with(".jj/repo/index/op_links/") => Tok::Link(last),
            "persist" if detail == ".jj/working_copy/tree_state" => Tok::St,
            "persist" if detail == ".jj/working_copy/checkout" => Tok::Sc,
            "opheads.add" => Tok::Ha(detail.clone()),
            "opheads.remove" => Tok::Hr(detail.clone()),
            "wc.create" | "wc.remove" => Tok::Wf,
            _ => Tok::X,
        };
        out.push(TraceLine { kind, detail, tok });
    }
    out
}

// ---------------------------------------------------------------------------------------------
// scenarios

#[derive(Clone, Copy, PartialEq, Eq, Debug)]
enum Backend { Git, GitNc, Simple }
impl Backend {
    fn name(self) -> &'static str {
        match self { Backend::Git => "git", Backend::GitNc => "git-nc", Backend::Simple => "simple" }
    }
}

#[derive(Clone, Debug)]
struct Scenario {
    name: &'static str,
    backend: Backend,
    /// edit working-copy files before the command (a snapshot with file edits)
    edits: bool,
    /// start from a stale working copy (a crashed `jj new bm`)
    stale_start: bool,
    args: &'static [&'static str],
}

const COMMANDS: &[(&str, bool, bool, &[&str])] = &[
    ("new-checkout", false, false, &["new", "bm"]),
    ("commit-edits", true, false, &["commit", "-m", "c1"]),
    ("status-edits", true, false, &["status"]),
    ("update-stale", false, true, &["workspace", "update-stale"]),
    ("bookmark-set", false, false, &["bookmark", "set", "bm", "-r", "@", "--allow-backwards"]),
    ("describe", false, false, &["describe", "-m", "d1"]),
    ("new-empty", false, false, &["new", "-m", "n1"]),
    ("squash", false, false, &["squash", "-m", "sq"]),
    ("rebase", false, false, &["rebase", "-r", "@", "-d", "bm"]),
    ("bookmark-create", false, false, &["bookmark", "create", "nb"]),
    ("abandon", false, false, &["abandon", "@"]),
    ("edit", false, false, &["edit", "bm"]),
    ("squash-edits", true, false, &["squash", "-m", "sq"]),
];

fn scenarios(tier: Tier) -> Vec<Scenario> {
    let mk = |name: &str, b: Backend| {
        let c = COMMANDS.iter().find(|c| c.0 == name).unwrap();
        Scenario { name: c.0, backend: b, edits: c.1, stale_start: c.2, args: c.3 }
    };
    if tier == Tier::Quick {
        vec![
            mk("new-checkout", Backend::GitNc),
            mk("commit-edits", Backend::Simple),
            mk("status-edits", Backend::Git),
            mk("update-stale", Backend::GitNc),
            mk("bookmark-set", Backend::Simple),
        ]
    } else {
        let mut v = vec![];
        for b in [Backend::Git, Backend::GitNc, Backend::Simple] {
            for c in COMMANDS {
                v.push(mk(c.0, b));
            }
        }
        v
    }
}

fn build_template(ctx: &Ctx, b: Backend, dir: &Path) -> Result<(), String> {
    let parent = dir.parent().unwrap();
    let name = dir.file_name().unwrap().to_string_lossy().into_owned();
    let mut seed = 100u64;
    let mut run = |d: &Path, args: &[&str]| -> Result<(), String> {
        seed += 1;
        let r = jj(ctx, d, args, seed, &[]);
        if r.ok() { Ok(()) } else { Err(format!("template {:?} jj {:?}: {}", b, args, r.brief())) }
    };
    match b {
        Backend::Git => run(parent, &["git", "init", "--colocate", &name])?,
        Backend::GitNc => run(parent, &["git", "init", "--no-colocate", &name])?,
        Backend::Simple => run(parent, &["debug", "init-simple", &name])?,
    }
    let w = |p: &str, c: &str| std::fs::write(dir.join(p), c).map_err(|e| e.to_string());
    w("a.txt", "base\n")?;
    w("keep.txt", "keep\n")?;
    std::fs::create_dir_all(dir.join("d")).map_err(|e| e.to_string())?;
    w("d/x.txt", "x\n")?;
    run(dir, &["commit", "-m", "base"])?;
    run(dir, &["bookmark", "create", "base", "-r", "@-"])?;
    w("a.txt", "one\n")?;
    run(dir, &["commit", "-m", "one"])?;
    run(dir, &["bookmark", "create", "bm", "-r", "@-"])?;
    w("b.txt", "two\n")?;
    run(dir, &["describe", "-m", "two"])?;
    run(dir, &["new", "base", "-m", "side"])?;
    w("s.txt", "s\n")?;
    run(dir, &["status"])?;
    Ok(())
}

fn apply_edits(dir: &Path) -> Result<(), String> {
    std::fs::write(dir.join("a.txt"), "edited\n").map_err(|e| e.to_string())?;
    std::fs::write(dir.join("n.txt"), "new file\n").map_err(|e| e.to_string())?;
    std::fs::remove_file(dir.join("keep.txt")).map_err(|e| e.to_string())?;
    Ok(())
}

// ---------------------------------------------------------------------------------------------
// reference run of a scenario

struct Prepared {
    sc: Scenario,
    base: PathBuf,     // pristine "before" directory
    refdir: PathBuf,   // the uncrashed run's result (kept intact; used for `debug tree --id`)
    trace: Vec<TraceLine>,
    before_ops: Vec<String>,           // chronological (root first)
    new_ops: Vec<String>,              // in order of their operation-file write
    op_label: BTreeMap<String, usize>,
    states: Vec<String>,               // visible-state texts; 0 = before
    op_state: BTreeMap<String, usize>, // op hex -> state label
    op_tree: BTreeMap<String, usize>,  // op hex -> tree label of its working-copy commit
    tree_texts: Vec<String>,           // `debug tree` texts; label = index
    init_wc_op: String,
    init_wc_tree: String,
    before_disk: BTreeMap<String, Vec<u8>>,
    after_disk: BTreeMap<String, Vec<u8>>,
    before_objs: BTreeMap<String, Vec<u8>>,
    after_objs: BTreeMap<String, Vec<u8>>,
    tokens: Vec<String>,
    n_before: usize,
    shape_ok: bool,
    shape_note: String,
}

fn op_log_ids(ctx: &Ctx, dir: &Path, seed: u64) -> Result<Vec<String>, RunOut> {
    let r = jj(ctx, dir, &["op", "log", "--ignore-working-copy", "--no-graph", "-T", "id ++ \"\\n\""], seed, &[]);
    if !r.ok() {
        return Err(r);
    }
    Ok(r.stdout.lines().map(|s| s.trim().to_string()).filter(|s| !s.is_empty()).collect())
}

fn log_state(ctx: &Ctx, dir: &Path, at_op: Option<&str>, seed: u64) -> Result<String, RunOut> {
    let mut args = vec!["log", "--ignore-working-copy", "--no-graph", "-r", "all()", "-T", LOG_T];
    if let Some(op) = at_op {
        args.push("--at-op");
        args.push(op);
    }
    let r = jj(ctx, dir, &args, seed, &[]);
    if r.ok() { Ok(r.stdout) } else { Err(r) }
}

fn tree_text(ctx: &Ctx, dir: &Path, spec: &[&str]) -> Result<String, RunOut> {
    let mut args = vec!["debug", "tree", "--ignore-working-copy"];
    args.extend_from_slice(spec);
    let r = jj(ctx, dir, &args, 50, &[]);
    if r.ok() { Ok(r.stdout) } else { Err(r) }
}

fn intern(table: &mut Vec<String>, s: String) -> usize {
    if let Some(i) = table.iter().position(|x| *x == s) {
        i
    } else {
        table.push(s);
        table.len() - 1
    }
}

fn prepare(ctx: &Ctx, idx: usize, sc: &Scenario, tpl: &Path) -> Result<Prepared, String> {
    let sdir = ctx.root.join(format!("s{idx}"));
    let base = sdir.join("base");
    let refdir = sdir.join("w"); // same leaf name as the crash-run work dirs
    let io = |e: std::io::Error| format!("io: {e}");
    copy_tree(tpl, &base).map_err(io)?;
    if sc.stale_start {
        // make the working copy stale: kill `jj new bm` right after it published its operation
        let tr = sdir.join("stale.trace");
        let probe = sdir.join("probe");
        copy_tree(tpl, &probe).map_err(io)?;
        let r = jj(ctx, &probe, &["new", "bm"], 6, &[("JJ_VERIF_TRACE", tr.display().to_string())]);
        if !r.ok() {
            return Err(format!("stale probe failed: {}", r.brief()));
        }
        let t = parse_trace(&tr, &probe);
        let k = t.iter().position(|l| l.tok == Tok::Wf || l.tok == Tok::St).ok_or("no checkout step in `new bm`")? + 1;
        let r = jj(ctx, &base, &["new", "bm"], 6, &[("JJ_VERIF_CRASH_AT", k.to_string())]);
        if !r.aborted() {
            return Err(format!("stale preparation did not abort: {}", r.brief()));
        }
    }
    if sc.edits {
        apply_edits(&base)?;
    }
    // "before" observations on a scratch copy (observing may tidy op heads / write an index)
    let bobs = sdir.join("bobs");
    copy_tree(&base, &bobs).map_err(io)?;
    let before_disk = disk_files(&base);
    let before_objs = object_files(&base);
    let init_wc_op = read_checkout_op(&base).ok_or("no checkout file in template")?;
    let init_wc_tree = read_tree_state_tree(&base).ok_or("no tree_state in template")?;
    let mut before_ops = op_log_ids(ctx, &bobs, 40).map_err(|r| format!("before op log: {}", r.brief()))?;
    before_ops.reverse();
    let before_state = log_state(ctx, &bobs, None, 41).map_err(|r| format!("before log: {}", r.brief()))?;
    let before_tree = tree_text(ctx, &bobs, &["-r", "@"]).map_err(|r| format!("before tree: {}", r.brief()))?;

    // reference (uncrashed) run
    copy_tree(&base, &refdir).map_err(io)?;
    let trf = sdir.join("ref.trace");
    let _ = std::fs::remove_file(&trf);
    let r = jj(ctx, &refdir, sc.args, 7, &[("JJ_VERIF_TRACE", trf.display().to_string())]);
    if !r.ok() {
        return Err(format!("reference run of {:?} failed: {}", sc.args, r.brief()));
    }
    let trace = parse_trace(&trf, &refdir);
    if trace.is_empty() {
        return Err("empty trace (hooks not compiled in?)".into());
    }
    let after_disk = disk_files(&refdir);
    let after_objs = object_files(&refdir);

    let mut op_label = BTreeMap::new();
    for (i, o) in before_ops.iter().enumerate() {
        op_label.insert(o.clone(), i);
    }
    let n_before = before_ops.len();
    let mut new_ops: Vec<String> = vec![];
    for l in &trace {
        if let Tok::Op(h) | Tok::Ha(h) | Tok::Link(h) = &l.tok {
            if !op_label.contains_key(h) {
                op_label.insert(h.clone(), n_before + new_ops.len());
                new_ops.push(h.clone());
            }
        }
    }
    let mut states = vec![before_state];
    let mut tree_texts = vec![before_tree];
    let mut op_state = BTreeMap::new();
    let mut op_tree = BTreeMap::new();
    op_state.insert(before_ops.last().unwrap().clone(), 0);
    op_tree.insert(before_ops.last().unwrap().clone(), 0);
    for o in &new_ops {
        let s = log_state(ctx, &refdir, Some(o), 42).map_err(|r| format!("log --at-op: {}", r.brief()))?;
        let t = tree_text(ctx, &refdir, &["-r", "@", "--at-op", o]).map_err(|r| format!("tree --at-op: {}", r.brief()))?;
        op_state.insert(o.clone(), intern(&mut states, s));
        op_tree.insert(o.clone(), intern(&mut tree_texts, t));
    }

    // abstraction of the trace to the model's alphabet
    let lab = |h: &str| op_label.get(h).copied().unwrap_or(900);
    let mut tokens = vec![];
    let mut cur_head = before_ops.last().unwrap().clone();
    let mut shape_ok = true;
    let mut shape_note = String::new();
    for (i, l) in trace.iter().enumerate() {
        let t = match &l.tok {
            Tok::View(vhex) => {
                // the view belongs to the next operation written
                let next_op = trace[i + 1..].iter().find_map(|l| if let Tok::Op(h) = &l.tok { Some(h.clone()) } else { None });
                match next_op.as_ref().and_then(|o| read_operation(&refdir, o).map(|r| (o, r))) {
                    Some((o, (view, _))) if view == *vhex => format!("wv:{}:{}", op_state[o], op_tree[o]),
                    _ => { shape_ok = false; shape_note = format!("view {} written at step {} belongs to no operation", &vhex[..8], i + 1); "wv:999:999".to_string() }
                }
            }
            Tok::Op(h) => match read_operation(&refdir, h) {
                Some((_view, parents)) => {
                    let ps: Vec<String> = parents.iter().map(|p| lab(p).to_string()).collect();
                    format!("wo:{}:{}:{}", lab(h), if ps.is_empty() { "-".into() } else { ps.join(",") }, op_state.get(h).copied().unwrap_or(999))
                }
                None => { shape_ok = false; shape_note = format!("operation file {} unreadable", &h[..8]); format!("wo:{}:-:999", lab(h)) }
            },
            Tok::Seg => "ws".into(),
            Tok::Link(h) => format!("wl:{}", lab(h)),
            Tok::Ha(h) => { cur_head = h.clone(); format!("ha:{}", lab(h)) }
            Tok::Hr(h) => format!("hr:{}", lab(h)),
            Tok::Wf => "wf".into(),
            Tok::St => format!("st:{}", op_tree.get(&cur_head).copied().unwrap_or(999)),
            Tok::Sc => format!("sc:{}", lab(&cur_head)),
            Tok::X => "x".into(),
        };
        tokens.push(t);
    }
    // the harness's own reading of "objects before opheads.add before tree_state/checkout"
    for (i, l) in trace.iter().enumerate() {
        if let Tok::Ha(h) = &l.tok {
            let has_op = trace[..i].iter().any(|m| m.tok == Tok::Op(h.clone()));
            let has_view = read_operation(&refdir, h).map(|(v, _)| trace[..i].iter().any(|m| m.tok == Tok::View(v.clone()))).unwrap_or(false);
            if !(has_op && has_view) && shape_ok {
                shape_ok = false;
                shape_note = format!("opheads.add at step {} before its operation/view file", i + 1);
            }
            // the working-copy files of this transaction come after the publish: every tree_state/checkout
            // save after this point and before the next operation write must follow the add (trivially true);
            // every save *before* it must belong to an earlier transaction (i.e. precede this op's file)
            let op_pos = trace.iter().position(|m| m.tok == Tok::Op(h.clone())).unwrap_or(0);
            if trace[op_pos..i].iter().any(|m| m.tok == Tok::St || m.tok == Tok::Sc) && shape_ok {
                shape_ok = false;
                shape_note = format!("working-copy state saved before opheads.add at step {}", i + 1);
            }
        }
        if let Tok::Hr(_) = &l.tok {
            if !trace[..i].iter().any(|m| matches!(m.tok, Tok::Ha(_))) && shape_ok {
                shape_ok = false;
                shape_note = format!("opheads.remove at step {} before any opheads.add", i + 1);
            }
        }
    }
    Ok(Prepared {
        sc: sc.clone(), base, refdir, trace, before_ops, new_ops, op_label, states, op_state, op_tree, tree_texts,
        init_wc_op, init_wc_tree, before_disk, after_disk, before_objs, after_objs, tokens, n_before, shape_ok, shape_note,
    })
}

// ---------------------------------------------------------------------------------------------
// one crash point

#[derive(Default, Debug)]
struct PointObs {
    crash: RunOut,
    crash_last_trace: Option<(String, String)>,
    wc_op: Option<String>,
    wc_tree: Option<String>,
    objs: BTreeMap<String, Vec<u8>>,
    oplog: Option<Vec<String>>,
    oplog_err: String,
    state: Option<String>,
    state_err: String,
    status1: RunOut,
    stale: bool,
    update: Option<RunOut>,
    status2: Option<RunOut>,
    oplog_final: Option<Vec<String>>,
    oplog_final_done: bool,
    oplog_final_err: String,
    disk_final: BTreeMap<String, Vec<u8>>,
}

fn is_stale_msg(r: &RunOut) -> bool {
    r.code == Some(1) && r.stderr.contains("working copy is stale") && r.stderr.contains("jj workspace update-stale")
}

fn run_point(ctx: &Ctx, p: &Prepared, k: usize, wdir: &Path, full_followup: bool) -> PointObs {
    let mut o = PointObs::default();
    let ws = wdir.join("w");
    if let Err(e) = copy_tree(&p.base, &ws) {
        o.crash.stderr = format!("copy failed: {e}");
        return o;
    }
    let trf = wdir.join("crash.trace");
    let _ = std::fs::remove_file(&trf);
    o.crash = jj(ctx, &ws, p.sc.args, 7, &[
        ("JJ_VERIF_CRASH_AT", k.to_string()),
        ("JJ_VERIF_TRACE", trf.display().to_string()),
    ]);
    o.crash_last_trace = parse_trace(&trf, &ws).last().map(|l| (l.kind.clone(), l.detail.clone()));
    // what is on disk, before anything else touches it
    o.wc_op = read_checkout_op(&ws);
    o.wc_tree = read_tree_state_tree(&ws);
    o.objs = object_files(&ws);
    // a fresh, normal jj
    match op_log_ids(ctx, &ws, 8) {
        Ok(v) => o.oplog = Some(v),
        Err(r) => o.oplog_err = r.brief(),
    }
    match log_state(ctx, &ws, None, 9) {
        Ok(s) => o.state = Some(s),
        Err(r) => o.state_err = r.brief(),
    }
    o.status1 = jj(ctx, &ws, &["status"], 10, &[]);
    if is_stale_msg(&o.status1) {
        o.stale = true;
        o.update = Some(jj(ctx, &ws, &["workspace", "update-stale"], 11, &[]));
        o.status2 = Some(jj(ctx, &ws, &["status"], 12, &[]));
    }
    if o.stale || full_followup {
        match op_log_ids(ctx, &ws, 13) {
            Ok(v) => o.oplog_final = Some(v),
            Err(r) => o.oplog_final_err = r.brief(),
        }
        o.oplog_final_done = true;
    }
    o.disk_final = disk_files(&ws);
    o
}

// ---------------------------------------------------------------------------------------------
// driver

pub fn run(cfg: &Cfg, out: &mut Out) {
    let Some(jj_bin) = std::env::var_os("JJ_VERIF_JJ_BIN") else {
        out.note("JJ_VERIF_JJ_BIN not set".into());
        out.oracle_fail("harness-no-jj-binary", "env JJ_VERIF_JJ_BIN is not set".into());
        return;
    };
    let tmp = tempfile::Builder::new().prefix("c15-").tempdir().expect("tempdir");
    let root = tmp.path().canonicalize().unwrap();
    let home = root.join("home");
    std::fs::create_dir_all(&home).unwrap();
    let config = root.join("config.toml");
    std::fs::write(&config, "[user]\nname = \"Crash Tester\"\nemail = \"crash@example.com\"\n[ui]\ncolor = \"never\"\npaginate = \"never\"\n").unwrap();
    let ctx = Ctx { jj: PathBuf::from(jj_bin), root: root.clone(), config, home };

    let mut scs = scenarios(cfg.tier);
    // replay / extended search knobs: `--only i` keeps scenario i; scale>1 adds the thorough set
    if cfg.scale > 1 && cfg.tier == Tier::Quick {
        // extended search of `check` (three runs with consecutive seeds): the thorough set,
        // one backend per run — nothing here is random, so the seed only selects the slice
        let b = [Backend::Git, Backend::GitNc, Backend::Simple][(cfg.seed % 3) as usize];
        scs = scenarios(Tier::Thorough).into_iter().filter(|s| s.backend == b).collect();
    }
    if let Some(i) = cfg.only {
        scs = scs.into_iter().skip(i as usize).take(1).collect();
    }
    let full_followup = cfg.tier == Tier::Thorough || cfg.scale > 1;
    let threads: usize = std::env::var("C15_THREADS").ok().and_then(|s| s.parse().ok()).unwrap_or(8);

    // templates
    let backends: BTreeSet<u8> = scs.iter().map(|s| s.backend as u8).collect();
    let mut tpls: BTreeMap<u8, PathBuf> = BTreeMap::new();
    {
        let wanted: Vec<Backend> = [Backend::Git, Backend::GitNc, Backend::Simple].into_iter().filter(|b| backends.contains(&(*b as u8))).collect();
        let built: Mutex<Vec<(Backend, PathBuf, Result<(), String>)>> = Mutex::new(vec![]);
        std::thread::scope(|s| {
            for b in &wanted {
                let (ctx, root, built) = (&ctx, &root, &built);
                s.spawn(move || {
                    let dir = root.join(format!("tpl-{}", b.name())).join("w");
                    std::fs::create_dir_all(dir.parent().unwrap()).unwrap();
                    let r = build_template(ctx, *b, &dir);
                    built.lock().unwrap().push((*b, dir, r));
                });
            }
        });
        for (b, dir, r) in built.into_inner().unwrap() {
            if let Err(e) = r {
                out.oracle_fail("harness-template-failed", e);
                return;
            }
            tpls.insert(b as u8, dir);
        }
    }

    // reference runs (parallel over scenarios)
    let prepared: Vec<Result<Prepared, String>> = {
        let slots: Mutex<Vec<Option<Result<Prepared, String>>>> = Mutex::new((0..scs.len()).map(|_| None).collect());
        let next = AtomicUsize::new(0);
        std::thread::scope(|s| {
            for _ in 0..threads.min(scs.len()).max(1) {
                s.spawn(|| loop {
                    let i = next.fetch_add(1, Ordering::SeqCst);
                    if i >= scs.len() {
                        break;
                    }
                    let r = prepare(&ctx, i, &scs[i], &tpls[&(scs[i].backend as u8)]);
                    slots.lock().unwrap()[i] = Some(r);
                });
            }
        });
        slots.into_inner().unwrap().into_iter().map(|x| x.unwrap()).collect()
    };
    let mut preps: Vec<Prepared> = vec![];
    for (i, p) in prepared.into_iter().enumerate() {
        match p {
            Ok(p) => preps.push(p),
            Err(e) => out.oracle_fail("harness-reference-run-failed", format!("scenario {} {}@{}: {e}", i, scs[i].name, scs[i].backend.name())),
        }
    }

    // crash runs (parallel over all points)
    // A crash at step k leaves what steps 1..k-1 did.  If step k-1 only reads (`opheads.read`,
    // `table.read-heads`) the state is the one of crash point k-1: the quick tier skips those.
    let is_read = |l: &TraceLine| l.kind == "opheads.read" || l.kind == "table.read-heads";
    let items: Vec<(usize, usize)> = preps.iter().enumerate().flat_map(|(si, p)| (1..=p.trace.len()).map(move |k| (si, k)))
        .filter(|&(si, k)| full_followup || k < 2 || !is_read(&preps[si].trace[k - 2])).collect();
    let results: Vec<PointObs> = {
        let slots: Mutex<Vec<Option<PointObs>>> = Mutex::new((0..items.len()).map(|_| None).collect());
        let next = AtomicUsize::new(0);
        std::thread::scope(|s| {
            for t in 0..threads.max(1) {
                let (slots, next, items, preps, ctx) = (&slots, &next, &items, &preps, &ctx);
                s.spawn(move || {
                    let wdir = ctx.root.join(format!("t{t}"));
                    std::fs::create_dir_all(&wdir).unwrap();
                    loop {
                        let i = next.fetch_add(1, Ordering::SeqCst);
                        if i >= items.len() {
                            break;
                        }
                        let (si, k) = items[i];
                        let o = run_point(ctx, &preps[si], k, &wdir, full_followup);
                        slots.lock().unwrap()[i] = Some(o);
                    }
                });
            }
        });
        slots.into_inner().unwrap().into_iter().map(|x| x.unwrap()).collect()
    };

    // emit + judge, in deterministic order
    let mut by_scenario: Vec<Vec<(usize, PointObs)>> = preps.iter().map(|_| vec![]).collect();
    for ((si, k), o) in items.iter().zip(results) {
        by_scenario[*si].push((*k, o));
    }
    for (p, obs) in preps.iter_mut().zip(by_scenario.iter()) {
        emit_scenario(&ctx, p, obs, out);
    }
    out.set_exhaustive(false);
}

fn tree_label(ctx: &Ctx, p: &mut Prepared, cache: &mut BTreeMap<String, usize>, hexid: &str) -> usize {
    if let Some(&l) = cache.get(hexid) {
        return l;
    }
    let l = if hexid.contains('+') {
        // conflicted working-copy tree: label by the id string itself
        intern(&mut p.tree_texts, format!("conflict:{hexid}"))
    } else {
        match tree_text(ctx, &p.refdir, &["--id", hexid]) {
            Ok(t) => intern(&mut p.tree_texts, t),
            Err(_) => 900,
        }
    };
    cache.insert(hexid.to_string(), l);
    l
}

fn emit_scenario(ctx: &Ctx, p: &mut Prepared, obs: &[(usize, PointObs)], out: &mut Out) {
    let scn = format!("{}@{}", p.sc.name, p.sc.backend.name());
    let mut cache: BTreeMap<String, usize> = BTreeMap::new();
    let lab_op = |p: &Prepared, h: &str| p.op_label.get(h).copied().unwrap_or(900);
    let init_tree = { let h = p.init_wc_tree.clone(); tree_label(ctx, p, &mut cache, &h) };
    let init = format!("{}:0:0:{}:{}", p.n_before, lab_op(p, &p.init_wc_op), init_tree);
    let toks = p.tokens.join(" ");
    out.tally("scenario", &scn);
    out.tally("steps-per-command", &format!("{scn}={}", p.trace.len()));

    // shape: the real write order against the model's discipline
    let n_tx = p.trace.iter().filter(|l| matches!(l.tok, Tok::Ha(_))).count();
    let shape_impl = if p.shape_ok { format!("repo=ok wc=ok tx={n_tx}") } else { format!("repo=unexpected wc=unexpected tx={n_tx}") };
    out.case(&format!("shape {init} {toks}"), &shape_impl);
    if p.shape_ok {
        out.oracle_ok();
    } else {
        // not by itself a property failure: the crash points below decide; recorded for the report
        out.note(format!("{scn}: unexpected write order: {}", p.shape_note));
    }
    out.sample(format!("{scn}: {}", p.trace.iter().map(|l| {
        let d = l.detail.rsplit('/').next().unwrap_or("");
        let d = if is_final_name(d) { &d[..8] } else { d };
        format!("{}{}{}", l.kind, if d.is_empty() { "" } else { ":" }, d)
    }).collect::<Vec<_>>().join(" ")));

    // labels of the working-copy trees found on disk (needs `jj debug tree --id` for unseen ids)
    let wts: Vec<String> = obs.iter().map(|(_, o)| match &o.wc_tree {
        Some(h) => tree_label(ctx, p, &mut cache, h).to_string(),
        None => "none".into(),
    }).collect();
    let p: &Prepared = p;
    for (oi, (k, o)) in obs.iter().enumerate() {
        let k = *k;
        let i = k - 1;
        let line = &p.trace[i];
        let at = format!("{scn} k={k}/{} ({} {})", p.trace.len(), line.kind, line.detail);
        out.tally("crash-step-kind", &line.kind);

        // --- implementation's answer -------------------------------------------------------
        let wt = wts[oi].clone();
        let wo = match &o.wc_op { Some(h) => lab_op(p, h).to_string(), None => "none".into() };
        let head = o.oplog.as_ref().and_then(|v| v.first().cloned());
        let state_label = o.state.as_ref().map(|s| p.states.iter().position(|x| x == s));
        let wc = if o.status1.ok() { "ok" } else if o.stale { "stale" }
                 else if o.status1.stderr.contains("seems to be a sibling") { "sibling" }
                 else if o.status1.stderr.contains("Could not read working copy's operation") { "unreadable" }
                 else { "error" };
        let before_set: BTreeSet<&String> = p.before_ops.iter().collect();
        let all_pub = |v: &Vec<String>| { let s: BTreeSet<&String> = v.iter().collect(); before_set.iter().all(|b| s.contains(*b)) };
        let answer = match (&head, &state_label) {
            (Some(h), Some(sl)) => format!(
                "head={} view={} wc={} wt={} wo={} pub={}",
                lab_op(p, h), sl.map(|x| x.to_string()).unwrap_or("900".into()), wc, wt, wo,
                if o.oplog.as_ref().map(all_pub).unwrap_or(false) { "ok" } else { "lost" }),
            _ => format!("noload wt={wt} wo={wo}"),
        };
        out.case(&format!("predict {k} {init} {toks}"), &answer);
        out.nontrivial((&scn, k));
        out.tally("observed", &format!("head={} wc={}", if head.as_deref() == p.before_ops.last().map(|s| s.as_str()) { "before" } else { "later" }, wc));

        // --- oracle (property text) ----------------------------------------------------------
        judge_point(p, o, k, &at, wts[oi].parse::<usize>().ok(), out);

        // --- persist idiom: at a rename step the temp file must already be complete -----------
        if line.kind == "persist" || line.kind == "persist-ca" {
            let rel = &line.detail;
            // the same content-addressed object may be written twice by one command
            let written_earlier = p.trace[..i].iter().any(|l| (l.kind == "persist" || l.kind == "persist-ca") && l.detail == *rel);
            let old = p.before_objs.get(rel).or_else(|| if written_earlier { p.after_objs.get(rel) } else { None });
            let expected = p.after_objs.get(rel);
            let is_wc_file = rel.starts_with(".jj/working_copy/");
            if !is_wc_file {
                let fin = match o.objs.get(rel) {
                    None => "none",
                    Some(b) if old.map(|x| same_object(rel, x, b)).unwrap_or(false) => "old",
                    Some(b) if expected.map(|x| same_object(rel, x, b)).unwrap_or(false) => "new-early",
                    Some(_) => "partial",
                };
                // temp files = non-final names that were not there before (simple_backend.rs creates them
                // in the store root, everything else next to the final file)
                let temps: Vec<&Vec<u8>> = o.objs.iter()
                    .filter(|(k, _)| !is_final_name(k.rsplit('/').next().unwrap_or("")) && !p.before_objs.contains_key(*k))
                    .map(|x| x.1).collect();
                let tmp = if temps.is_empty() { "none" }
                          else if expected.map(|e| temps.iter().any(|t| same_object(rel, t, e))).unwrap_or(false) { "complete" }
                          else { "partial" };
                let req_old = if old.is_some() { 1 } else { 0 };
                out.case(&format!("persist {req_old} 1 2"), &format!("final={fin} temp={tmp}"));
                if tmp == "complete" && (fin == "none" || fin == "old") {
                    out.oracle_ok();
                } else {
                    out.oracle_fail("temp-incomplete-at-rename", format!("{at}: final={fin} temp={tmp} ({} temp files)", temps.len()));
                }
            }
        }
    }
}

/// The property's own statement, evaluated on what the real repository shows after the crash.
fn judge_point(p: &Prepared, o: &PointObs, k: usize, at: &str, wt_label: Option<usize>, out: &mut Out) {
    // the crash really happened where the reference trace says
    if !o.crash.aborted() {
        out.oracle_fail("harness-crash-run-did-not-abort", format!("{at}: {}", o.crash.brief()));
        return;
    }
    let line = &p.trace[k - 1];
    match &o.crash_last_trace {
        Some((kind, detail)) if *kind == line.kind && *detail == line.detail => {}
        other => {
            out.oracle_fail("harness-trace-not-deterministic", format!("{at}: crashed run stopped at {other:?}"));
            return;
        }
    }
    // 1. stored objects are never observed truncated: every final-name file has the bytes it has in
    //    the uncrashed run / had before
    let mut bad = None;
    let mut unknown = 0;
    for (path, bytes) in &o.objs {
        let name = path.rsplit('/').next().unwrap_or("");
        if !is_final_name(name) {
            continue;
        }
        if path.contains("/heads/") && bytes.is_empty() {
            continue; // stacked-table head markers: empty files, come and go (C21's subject)
        }
        match (p.before_objs.get(path), p.after_objs.get(path)) {
            (Some(b), _) if same_object(path, b, bytes) => {}
            (_, Some(a)) if same_object(path, a, bytes) => {}
            (None, None) => { unknown += 1; out.tally("object-not-in-reference-run", &format!("{}/{}", path.rsplit('/').nth(1).unwrap_or(""), p.sc.backend.name())); }
            _ => { bad = Some(path.clone()); }
        }
    }
    // … and nothing that was stored before has disappeared
    for path in p.before_objs.keys() {
        let name = path.rsplit('/').next().unwrap_or("");
        let is_table_head = path.contains("/heads/");
        if is_final_name(name) && !is_table_head && !o.objs.contains_key(path) {
            bad = Some(format!("{path} (deleted)"));
        }
    }
    if unknown > 0 {
        out.tally("objects-not-in-reference-run", &unknown.to_string());
    }
    match bad {
        Some(path) => out.oracle_fail("stored-object-truncated-or-lost", format!("{at}: {path}")),
        None => out.oracle_ok(),
    }
    // 2. the repository still loads
    let (Some(oplog), Some(state)) = (&o.oplog, &o.state) else {
        out.oracle_fail("repo-does-not-load-after-crash", format!("{at}: op log: {} ; log: {}", o.oplog_err, o.state_err));
        return;
    };
    out.oracle_ok();
    // 3. every operation that was complete before the command is still in the history
    let have: BTreeSet<&String> = oplog.iter().collect();
    if let Some(lost) = p.before_ops.iter().find(|b| !have.contains(b)) {
        out.oracle_fail("committed-operation-lost", format!("{at}: operation {} is no longer in `jj op log`", &lost[..12]));
    } else {
        out.oracle_ok();
    }
    // 4. the current state is the state before the command or after (one of) its operation(s)
    let head = oplog.first().cloned().unwrap_or_default();
    let head_known = p.before_ops.last() == Some(&head) || p.new_ops.contains(&head);
    match p.states.iter().position(|s| s == state) {
        Some(sl) if head_known && p.op_state.get(&head) == Some(&sl) => out.oracle_ok(),
        Some(sl) => out.oracle_fail("state-neither-before-nor-after", format!("{at}: head {} shows state #{sl} which is not the state of that operation", &head[..head.len().min(12)])),
        None => out.oracle_fail("state-neither-before-nor-after", format!("{at}: visible state matches neither the before-state nor the state after any operation of the command; head {}", &head[..head.len().min(12)])),
    }
    // 4'. … also for the working copy's own record: (old op, old tree), (old op, new tree) and
    //     (new op, new tree) are states the documented stale handling covers; a `checkout` file that
    //     names the current head while `tree_state` still records another tree is neither
    if o.wc_op.as_deref() == Some(head.as_str()) && head_known {
        match (wt_label, p.op_tree.get(&head)) {
            (Some(w), Some(t)) if w != *t => out.oracle_fail("working-copy-record-inconsistent",
                format!("{at}: checkout names the head {} but tree_state records tree #{w}, the head's working-copy tree is #{t}", &head[..12])),
            (Some(_), Some(_)) => out.oracle_ok(),
            _ => {}
        }
    }
    // 5. the working copy can be brought up to date with the documented recovery command
    let recovered = if o.status1.ok() {
        true
    } else if o.stale {
        let u = o.update.as_ref().unwrap();
        let s2 = o.status2.as_ref().unwrap();
        if !u.ok() {
            out.oracle_fail("update-stale-fails", format!("{at}: {}", u.brief()));
            false
        } else if !s2.ok() {
            out.oracle_fail("status-fails-after-update-stale", format!("{at}: {}", s2.brief()));
            false
        } else {
            true
        }
    } else {
        out.oracle_fail("status-fails-after-crash", format!("{at}: {}", o.status1.brief()));
        false
    };
    if !recovered {
        return;
    }
    out.oracle_ok();
    // 3'. … and recovery did not drop operations either
    match &o.oplog_final {
        _ if !o.oplog_final_done => {}
        Some(v) => {
            let have: BTreeSet<&String> = v.iter().collect();
            if let Some(lost) = p.before_ops.iter().chain(oplog.iter()).find(|b| !have.contains(b)) {
                out.oracle_fail("committed-operation-lost", format!("{at}: operation {} disappeared during recovery", &lost[..12]));
            } else {
                out.oracle_ok();
            }
        }
        None => out.oracle_fail("repo-does-not-load-after-crash", format!("{at}: op log after recovery: {}", o.oplog_final_err)),
    }
    // 6. … without losing files: every file that existed before has its before- or after-content,
    //    and may only be absent if the command removes it
    let mut lost = None;
    let paths: BTreeSet<&String> = p.before_disk.keys().chain(p.after_disk.keys()).collect();
    for path in paths {
        let (b, a, f) = (p.before_disk.get(path), p.after_disk.get(path), o.disk_final.get(path));
        let okay = match f {
            Some(c) => Some(c) == b || Some(c) == a,
            None => b.is_none() || a.is_none(),
        };
        if !okay {
            lost = Some(format!("{path}: before={:?} after={:?} found={:?}",
                b.map(|x| String::from_utf8_lossy(x).into_owned()), a.map(|x| String::from_utf8_lossy(x).into_owned()),
                f.map(|x| String::from_utf8_lossy(x).into_owned())));
        }
    }
    for path in o.disk_final.keys() {
        if !p.before_disk.contains_key(path) && !p.after_disk.contains_key(path) {
            out.tally("unexpected-extra-file", path);
        }
    }
    match lost {
        Some(d) => out.oracle_fail("file-lost-after-recovery", format!("{at}: {d}")),
        None => out.oracle_ok(),
    }
}
