//! C40 — working-copy changes are never lost by commands (CLI level, real `jj` binary).
//!
//! Random scripts of commands (`new, edit, describe, commit, squash, split, abandon, rebase, restore,
//! undo, op restore, workspace add, workspace update-stale, status`, some with `--at-op` /
//! `--ignore-working-copy`) interleaved with random file edits in one or two workspaces.
//!
//! Before every command the files of every workspace are recorded.  The command runs with
//! `JJ_VERIF_TRACE` (one line per storage step: `opheads.add <op>`, `wc.create <path>`, `wc.remove <path>` …).
//! Afterwards the operation log and every operation's working-copy commits are read in-process
//! through jj-lib (read-only: op heads, op store, commit trees).
//!
//! Oracle (property text): if a workspace's files changed during the command, some operation that
//! was in the log *before the first file write of the command* (it existed before, or its
//! `opheads.add` precedes the first `wc.create`/`wc.remove` in the trace) has a working-copy commit
//! for that workspace holding exactly the files found at command start; only the command's own
//! workspace may change; `--at-op` / `--ignore-working-copy` change no file; no operation ever
//! leaves the log.
//!
//! Correspondence: one request per command = the observed state before it (operation DAG with the
//! tree of every workspace's working-copy commit, op heads, per workspace: disk, tree_state tree,
//! tree_state operation) + the command's inputs (flags, the view of the merge / transaction
//! operation it published); the model (`Model/Cli.lean`) predicts refusal (stale), which operations are
//! published in which order relative to the file writes, the disk afterwards and the operation the
//! working copy records.
#[path = "../clih.rs"]
mod clih;
use crate::rt::*;
use clih::*;
use jj_lib::object_id::ObjectId as _;
use std::collections::{BTreeMap, BTreeSet, HashMap};
use std::path::{Path, PathBuf};

type Disk = BTreeMap<String, (bool, Vec<u8>)>;

#[derive(Clone, PartialEq, Eq, Hash, PartialOrd, Ord, Debug)]
enum TreeKey {
    Files(Vec<(String, bool, Vec<u8>)>),
    /// a tree with conflicts (or symlinks etc.): never equal to a disk state
    Opaque(String),
}

fn key_of_disk(d: &Disk) -> TreeKey {
    TreeKey::Files(d.iter().map(|(p, (x, c))| (p.clone(), *x, c.clone())).collect())
}

struct Rec {
    req: Option<String>,
    resp: String,
    tallies: Vec<(&'static str, String)>,
    nontrivial: Option<String>,
    oracle_ok: u32,
    fails: Vec<(String, String)>,
    notes: Vec<String>,
}
impl Rec {
    fn new(req: Option<String>, resp: String) -> Rec {
        Rec { req, resp, tallies: vec![], nontrivial: None, oracle_ok: 0, fails: vec![], notes: vec![] }
    }
}

#[derive(Clone, Debug)]
struct OpInfo {
    id: String,
    parents: Vec<String>,
    desc: String,
    is_snapshot: bool,
    /// workspace name → commit id
    view: BTreeMap<String, String>,
}

struct World {
    env: Env,
    /// workspace directories; index = workspace number (0 = "default", 1 = "w1")
    dirs: Vec<PathBuf>,
    names: Vec<String>,
    interned: HashMap<TreeKey, u64>,
    commit_tree: HashMap<String, u64>,
    commit_conflicted: BTreeSet<String>,
    op_index: HashMap<String, usize>,
    ops: Vec<OpInfo>,
    settings: jj_lib::settings::UserSettings,
    commits: BTreeSet<String>,
}

impl World {
    fn intern(&mut self, k: TreeKey) -> u64 {
        let n = self.interned.len() as u64 + 1;
        *self.interned.entry(k).or_insert(n)
    }

    fn load(&self, ws: usize) -> Result<jj_lib::workspace::Workspace, String> {
        jj_lib::workspace::Workspace::load(
            &self.settings,
            &self.dirs[ws],
            &jj_lib::default_backend_factories::default_backend_factories(),
            &jj_lib::default_backend_factories::default_working_copy_factories(),
        )
        .map_err(|e| format!("workspace load: {e}"))
    }

    fn tree_key(tree: &jj_lib::merged_tree::MergedTree) -> TreeKey {
        let mut files = vec![];
        for (path, value) in tree.entries() {
            let Ok(value) = value else { return TreeKey::Opaque(format!("{:?}", tree.tree_ids())) };
            match value.into_resolved() {
                Ok(Some(jj_lib::backend::TreeValue::File { id, executable, .. })) => {
                    let content = testutils::read_file(tree.store(), &path, &id);
                    files.push((path.as_internal_file_string().to_string(), executable, content));
                }
                Ok(None) => {}
                _ => return TreeKey::Opaque(format!("{:?}", tree.tree_ids())),
            }
        }
        files.sort();
        TreeKey::Files(files)
    }

    fn commit_tree_id(&mut self, store: &std::sync::Arc<jj_lib::store::Store>, commit_hex: &str) -> Result<u64, String> {
        if let Some(t) = self.commit_tree.get(commit_hex) {
            return Ok(*t);
        }
        let id = jj_lib::backend::CommitId::try_from_hex(commit_hex).ok_or("bad commit id")?;
        let commit = store.get_commit(&id).map_err(|e| format!("get_commit: {e}"))?;
        let key = Self::tree_key(&commit.tree());
        if matches!(key, TreeKey::Opaque(_)) {
            self.commit_conflicted.insert(commit_hex.to_string());
        }
        for p in commit.parent_ids() {
            self.commits.insert(p.hex());
        }
        self.commits.insert(commit_hex.to_string());
        let t = self.intern(key);
        self.commit_tree.insert(commit_hex.to_string(), t);
        Ok(t)
    }

    /// Reads the operation log (all operations reachable from the op heads).  New operations get
    /// indices in the order given by `publish_order` (ids from the trace), then any others parents-first.
    fn observe(&mut self, publish_order: &[String]) -> Result<(Vec<String>, std::sync::Arc<jj_lib::store::Store>), String> {
        use pollster::FutureExt as _;
        let ws = self.load(0)?;
        let loader = ws.repo_loader();
        let heads = loader.op_heads_store().get_op_heads().block_on().map_err(|e| format!("op heads: {e}"))?;
        let mut found: HashMap<String, OpInfo> = HashMap::new();
        let mut stack: Vec<jj_lib::op_store::OperationId> = heads.clone();
        while let Some(id) = stack.pop() {
            let hex = id.hex();
            if self.op_index.contains_key(&hex) || found.contains_key(&hex) {
                continue;
            }
            let op = loader.load_operation(&id).block_on().map_err(|e| format!("load op: {e}"))?;
            let view = op.view().block_on().map_err(|e| format!("view: {e}"))?;
            let mut v = BTreeMap::new();
            for (name, cid) in view.wc_commit_ids() {
                v.insert(name.as_str().to_string(), cid.hex());
            }
            found.insert(
                hex.clone(),
                OpInfo {
                    id: hex,
                    parents: op.parent_ids().iter().map(|p| p.hex()).collect(),
                    desc: op.metadata().description.clone(),
                    is_snapshot: op.metadata().is_snapshot,
                    view: v,
                },
            );
            stack.extend(op.parent_ids().iter().cloned());
        }
        // order: trace order first, the rest parents-first
        let mut order: Vec<String> = publish_order.iter().filter(|h| found.contains_key(*h)).cloned().collect();
        let mut rest: Vec<String> = found.keys().filter(|h| !order.contains(h)).cloned().collect();
        rest.sort();
        let mut pending = rest;
        let mut placed: BTreeSet<String> = order.iter().cloned().collect();
        // unpublished-in-trace operations (initial ones): repeatedly place those whose parents are placed
        let mut head_part: Vec<String> = vec![];
        while !pending.is_empty() {
            let before = pending.len();
            pending.retain(|h| {
                let ok = found[h].parents.iter().all(|p| self.op_index.contains_key(p) || placed.contains(p));
                if ok {
                    head_part.push(h.clone());
                    placed.insert(h.clone());
                }
                !ok
            });
            if pending.len() == before {
                return Err("operation order: cycle?".into());
            }
        }
        head_part.extend(order.drain(..));
        for h in head_part {
            let info = found.remove(&h).unwrap();
            self.op_index.insert(h, self.ops.len());
            self.ops.push(info);
        }
        Ok((heads.iter().map(|h| h.hex()).collect(), loader.store().clone()))
    }

    fn view_token(&mut self, store: &std::sync::Arc<jj_lib::store::Store>, view: &BTreeMap<String, String>) -> Result<String, String> {
        let mut parts = vec![];
        for (i, name) in self.names.clone().iter().enumerate() {
            if let Some(c) = view.get(name) {
                parts.push(format!("{i}={}", self.commit_tree_id(store, c)?));
            }
        }
        Ok(if parts.is_empty() { "-".into() } else { parts.join(",") })
    }

    /// (tree_state tree, tree_state operation index) of a workspace
    fn wc_state(&mut self, ws: usize) -> Result<(u64, String), String> {
        let w = self.load(ws)?;
        let wc = w.working_copy();
        let key = Self::tree_key(wc.tree().map_err(|e| format!("wc tree: {e}"))?);
        let op = wc.operation_id().hex();
        Ok((self.intern(key), op))
    }
}

#[derive(Default)]
struct Trace {
    /// op ids in publication order
    adds: Vec<String>,
    /// events in order: `A:<op>` / `W` (file write in the command's workspace) / `X` (in another
    /// existing workspace); writes into a workspace directory created by this command are not listed
    events: Vec<String>,
    /// ops published before the first file write
    adds_before_write: Vec<String>,
    wrote: bool,
}

/// `dirs`: directories of the workspaces that existed before the command, `ws`: the command's
fn parse_trace(path: &Path, dirs: &[PathBuf], ws: usize) -> Trace {
    let mut t = Trace::default();
    let Ok(text) = std::fs::read_to_string(path) else { return t };
    for line in text.lines() {
        let mut it = line.splitn(3, ' ');
        let (_n, kind, detail) = (it.next(), it.next().unwrap_or(""), it.next().unwrap_or(""));
        match kind {
            "opheads.add" => {
                t.adds.push(detail.to_string());
                if !t.wrote {
                    t.adds_before_write.push(detail.to_string());
                }
                t.events.push(format!("A:{detail}"));
            }
            "wc.create" | "wc.remove" => {
                let p = normalize(Path::new(detail));
                let owner = dirs.iter().position(|d| p.starts_with(d));
                let tag = match owner {
                    Some(o) if o == ws => "W",
                    Some(_) => "X",
                    None => continue, // the directory of a workspace being created
                };
                t.wrote = true;
                if t.events.last().map(String::as_str) != Some(tag) {
                    t.events.push(tag.into());
                }
            }
            _ => {}
        }
    }
    t
}

/// lexical normalization (`a/../b` → `b`)
fn normalize(p: &Path) -> PathBuf {
    let mut out = PathBuf::new();
    for c in p.components() {
        match c {
            std::path::Component::ParentDir => {
                out.pop();
            }
            std::path::Component::CurDir => {}
            other => out.push(other.as_os_str()),
        }
    }
    out
}

const FILES: &[&str] = &["a", "b", "c", "dir/e"];

fn random_edit(r: &mut Rng, dir: &Path, token: &str) -> String {
    let f = *r.pick(FILES);
    let p = dir.join(f);
    match r.below(5) {
        0 if p.exists() => {
            let _ = std::fs::remove_file(&p);
            format!("rm {f}")
        }
        1 if p.exists() => {
            let mut c = std::fs::read(&p).unwrap_or_default();
            c.extend_from_slice(format!("{token} more\n").as_bytes());
            std::fs::write(&p, c).unwrap();
            format!("append {f}")
        }
        2 => {
            // a small alphabet of contents: states can recur
            if let Some(parent) = p.parent() {
                let _ = std::fs::create_dir_all(parent);
            }
            std::fs::write(&p, format!("v{}\n", r.below(3))).unwrap();
            format!("set {f}")
        }
        _ => {
            if let Some(parent) = p.parent() {
                let _ = std::fs::create_dir_all(parent);
            }
            std::fs::write(&p, format!("{token}\n")).unwrap();
            format!("write {f}")
        }
    }
}

fn run_script(seed: u64, idx: u64, steps: usize) -> Vec<Rec> {
    let mut r = Rng(seed.wrapping_mul(0x9E3779B97F4A7C15) ^ (4000u64.wrapping_add(idx)).wrapping_mul(0xD1B54A32D192ED03));
    let mut recs: Vec<Rec> = vec![];
    let env = Env::new("c40", seed.wrapping_mul(1_000_003).wrapping_add(idx));
    let root = env.root.clone();
    let mut w = World {
        env,
        dirs: vec![root.join("r")],
        names: vec!["default".into()],
        interned: HashMap::new(),
        commit_tree: HashMap::new(),
        commit_conflicted: BTreeSet::new(),
        op_index: HashMap::new(),
        ops: vec![],
        settings: testutils::user_settings(),
        commits: BTreeSet::new(),
    };
    let fail_setup = |msg: String| {
        let mut rec = Rec::new(None, String::new());
        rec.tallies.push(("setup", "failed".into()));
        rec.notes.push(format!("script {idx}: {}", msg.chars().take(300).collect::<String>()));
        vec![rec]
    };
    let res = w.env.jj(&root, &["git", "init", "r"]);
    if res.code != 0 {
        return fail_setup(format!("git init: {}", res.err));
    }
    // a little history
    let d0 = w.dirs[0].clone();
    for k in 0..r.range(1, 2) {
        std::fs::write(d0.join(["a", "b"][k % 2]), format!("base {k}\n")).unwrap();
        let res = w.env.jj(&d0, &["commit", "-m", &format!("base{k}")]);
        if res.code != 0 {
            return fail_setup(format!("commit: {}", res.err));
        }
    }
    if let Err(e) = w.observe(&[]) {
        return fail_setup(e);
    }
    let trace_path = w.env.tmp.join("trace.log");
    // per workspace: the files jj left on disk after the last command that snapshotted / checked out
    // there, and the tree they stand for (differs from the plain file digest only for materialized conflicts)
    let mut clean: Vec<Option<(Disk, u64)>> = vec![None];
    let mut all_ops_seen: BTreeSet<String> = w.ops.iter().map(|o| o.id.clone()).collect();

    for step in 0..steps {
        let token = format!("s{idx}x{step}");
        let nws = w.dirs.len();
        // --- edits (0-2) in random workspaces
        let mut edits = vec![];
        for _ in 0..r.below(3) {
            let ws = r.below(nws);
            let d = w.dirs[ws].clone();
            edits.push(format!("{ws}:{}", random_edit(&mut r, &d, &token)));
        }
        // --- observed state before the command
        let (heads, store) = match w.observe(&[]) {
            Ok(x) => x,
            Err(e) => {
                let mut rec = Rec::new(None, String::new());
                rec.notes.push(format!("script {idx} step {step}: {e}"));
                recs.push(rec);
                return recs;
            }
        };
        let disks0: Vec<Disk> = w.dirs.iter().map(|d| disk_state(d)).collect();
        let disk_ids0: Vec<u64> = disks0
            .iter()
            .enumerate()
            .map(|(i, d)| match clean.get(i).and_then(|c| c.as_ref()) {
                Some((cd, t)) if cd == d => *t,
                _ => w.intern(key_of_disk(d)),
            })
            .collect();
        let mut wss_parts: Vec<(usize, u64, u64, usize)> = vec![];
        let mut ok = true;
        for ws in 0..nws {
            match w.wc_state(ws) {
                Ok((tree, op)) => match w.op_index.get(&op) {
                    Some(oi) => wss_parts.push((ws, disk_ids0[ws], tree, *oi)),
                    None => ok = false,
                },
                Err(_) => ok = false,
            }
        }
        if !ok {
            let mut rec = Rec::new(None, String::new());
            rec.tallies.push(("aborted", "working-copy state unreadable".into()));
            recs.push(rec);
            return recs;
        }
        let mut ops_tok = vec![];
        let ops_snapshot = w.ops.clone();
        for o in &ops_snapshot {
            let ps: Vec<u64> = o.parents.iter().filter_map(|p| w.op_index.get(p).map(|i| *i as u64)).collect();
            let v = match w.view_token(&store, &o.view) {
                Ok(v) => v,
                Err(e) => {
                    let mut rec = Rec::new(None, String::new());
                    rec.notes.push(format!("script {idx} step {step}: {e}"));
                    recs.push(rec);
                    return recs;
                }
            };
            ops_tok.push(format!("{}/{}", show_list(&ps), v));
        }
        let heads_tok = show_list(&{
            let mut h: Vec<u64> = heads.iter().filter_map(|h| w.op_index.get(h).map(|i| *i as u64)).collect();
            h.sort();
            h
        });
        let n_ops_before = w.ops.len();

        // --- choose the command
        let ws = r.below(nws);
        let commits: Vec<String> = w.commits.iter().cloned().collect();
        let any_commit = |r: &mut Rng| -> String {
            if commits.is_empty() || r.chance(1, 10) { "root()".to_string() } else { commits[r.below(commits.len())].clone() }
        };
        let any_op = |r: &mut Rng| -> (usize, String) {
            let i = r.below(ops_snapshot.len());
            (i, ops_snapshot[i].id.clone())
        };
        let mut kind_tok = "n".to_string();
        let mut at_op: Option<usize> = None;
        let mut ign = false;
        let mut args: Vec<String> = match r.below(20) {
            0 | 1 => vec!["status".into()],
            2 | 3 => vec!["new".into()],
            4 => vec!["new".into(), any_commit(&mut r)],
            5 | 6 => vec!["edit".into(), any_commit(&mut r)],
            7 => vec!["describe".into(), "-m".into(), token.clone()],
            8 => vec!["commit".into(), "-m".into(), token.clone()],
            9 => vec!["squash".into(), "-m".into(), token.clone()],
            10 => vec!["abandon".into(), if r.chance(1, 2) { "@".into() } else { any_commit(&mut r) }],
            11 => vec!["rebase".into(), if r.chance(1, 2) { "-r" } else { "-s" }.into(), "@".into(), "-d".into(), any_commit(&mut r)],
            12 => vec!["restore".into(), "--from".into(), any_commit(&mut r)],
            13 | 14 => vec!["undo".into()],
            15 => vec!["op".into(), "restore".into(), any_op(&mut r).1],
            16 => vec!["split".into(), "-m".into(), token.clone(), (*r.pick(FILES)).to_string()],
            17 if nws == 1 => {
                kind_tok = "a1".into();
                vec!["workspace".into(), "add".into(), "../w1".into()]
            }
            17 | 18 => {
                kind_tok = "u".into();
                vec!["workspace".into(), "update-stale".into()]
            }
            _ => vec!["abandon".into(), format!("{}@", w.names[r.below(nws)])],
        };
        let cmd_name = args[..args.len().min(2)].join(" ");
        if kind_tok == "n" && r.chance(1, 7) {
            if r.chance(2, 3) {
                let (i, id) = any_op(&mut r);
                at_op = Some(i);
                args.push(format!("--at-op={id}"));
            } else {
                ign = true;
                args.push("--ignore-working-copy".into());
            }
        }
        let _ = std::fs::remove_file(&trace_path);
        let a: Vec<&str> = args.iter().map(String::as_str).collect();
        let wsdir = w.dirs[ws].clone();
        let tp = trace_path.to_string_lossy().to_string();
        let res = w.env.jj_env(&wsdir, &a, &[("JJ_VERIF_TRACE", &tp)]);
        let trace = parse_trace(&trace_path, &w.dirs, ws);
        if kind_tok == "a1" && res.code == 0 {
            w.dirs.push(root.join("w1"));
            w.names.push("w1".into());
            clean.push(None);
        }

        // --- observe afterwards
        let (_heads1, store1) = match w.observe(&trace.adds) {
            Ok(x) => x,
            Err(e) => {
                let mut rec = Rec::new(None, String::new());
                rec.notes.push(format!("script {idx} step {step} after `{cmd_name}`: {e}"));
                rec.tallies.push(("aborted", "log unreadable".into()));
                recs.push(rec);
                return recs;
            }
        };
        let disks1: Vec<Disk> = w.dirs.iter().map(|d| disk_state(d)).collect();
        let new_ops: Vec<OpInfo> = w.ops[n_ops_before..].to_vec();
        let class = |o: &OpInfo| -> char {
            if o.is_snapshot {
                'S'
            } else if o.desc.starts_with("reconcile divergent operations") {
                'M'
            } else {
                'T'
            }
        };
        let by_id: HashMap<&str, &OpInfo> = new_ops.iter().map(|o| (o.id.as_str(), o)).collect();
        // event string from the trace; consecutive transaction operations are shown as one `T`
        let mut ev = String::new();
        for e in &trace.events {
            let ch = if e == "W" { 'W' } else if e == "X" { 'X' } else { by_id.get(&e[2..]).map(|o| class(o)).unwrap_or('?') };
            if ch == 'T' && ev.ends_with('T') {
                continue;
            }
            ev.push(ch);
        }
        if ev.is_empty() {
            ev.push('-');
        }
        let merge_view = new_ops.iter().find(|o| class(o) == 'M').map(|o| o.view.clone());
        let tx_view = new_ops.iter().rev().find(|o| class(o) == 'T').map(|o| o.view.clone());
        let n_tx = new_ops.iter().filter(|o| class(o) == 'T').count();
        let mv_tok = match &merge_view { Some(v) => w.view_token(&store1, v).unwrap_or("-".into()), None => "-".into() };
        let tv_tok = match &tx_view { Some(v) => w.view_token(&store1, v).unwrap_or("-".into()), None => "none".into() };
        let stale = res.err.contains("working copy is stale") || res.err.contains("seems to be a sibling of the working copy");
        let status = if stale { "stale" } else { "ok" };
        let wc_after = w.wc_state(ws);
        // was the workspace part of the view the command loaded?  (if not, jj skips the snapshot)
        let loaded_view: Option<BTreeMap<String, String>> = match &merge_view {
            Some(v) => Some(v.clone()),
            None => heads.first().and_then(|h| ops_snapshot.iter().find(|o| &o.id == h)).map(|o| o.view.clone()),
        };
        let in_view = loaded_view.map(|v| v.contains_key(&w.names[ws])).unwrap_or(false);
        if !in_view && at_op.is_none() && !ign {
            clean[ws] = None;
        }
        // the command snapshotted and checked out this workspace: files on disk now stand for the
        // tree the working copy records
        if at_op.is_none() && !ign && !stale && in_view {
            if let Ok((t, _)) = &wc_after {
                clean[ws] = Some((disks1[ws].clone(), *t));
            }
        }
        if kind_tok == "a1" && w.dirs.len() == 2 {
            if let Ok((t, _)) = w.wc_state(1) {
                clean[1] = Some((disks1[1].clone(), t));
            }
        }
        let disk_after = match &clean[ws] {
            Some((cd, t)) if *cd == disks1[ws] => *t,
            _ => w.intern(key_of_disk(&disks1[ws])),
        };
        let o_after = match wc_after {
            Ok((_, op)) => match w.op_index.get(&op) {
                Some(i) if *i < n_ops_before => format!("old:{i}"),
                Some(i) => format!("{}", class(&w.ops[*i])),
                None => "?".into(),
            },
            Err(_) => "?".into(),
        };
        // A disk holding (edited) materialized conflicts does not name a tree by its files alone: if the
        // snapshot operation of this command recorded a tree with conflicts, that tree stands for the disk.
        if let Some(sop) = new_ops.iter().find(|o| class(o) == 'S') {
            if let Some(c) = sop.view.get(&w.names[ws]).cloned() {
                if let Ok(t) = w.commit_tree_id(&store1, &c) {
                    if w.commit_conflicted.contains(&c) {
                        for p in wss_parts.iter_mut().filter(|p| p.0 == ws) {
                            p.1 = t;
                        }
                    }
                }
            }
        }
        let wss_tok: Vec<String> = wss_parts.iter().map(|(a, d, t, o)| format!("{a}:{d}:{t}:{o}")).collect();
        let req = format!(
            "step {} {heads_tok} {} {ws}:{}:{}:{kind_tok}:{mv_tok}:{tv_tok} {}",
            ops_tok.join(";"),
            wss_tok.join(";"),
            at_op.map(|i| i.to_string()).unwrap_or("-".into()),
            ign as u8,
            format!("{}@{idx}.{step}", cmd_name.replace(' ', "_"))
        );
        if std::env::var_os("C40_DEBUG").is_some() {
            eprintln!("[{idx}.{step}] edits={edits:?} cmd={args:?} ws={ws} exit={} disk0={:?} disk1={:?} trace={:?}\n   stderr={}",
                res.code,
                disks0[ws].iter().map(|(k, v)| format!("{k}={}", String::from_utf8_lossy(&v.1).trim())).collect::<Vec<_>>(),
                disks1[ws].iter().map(|(k, v)| format!("{k}={}", String::from_utf8_lossy(&v.1).trim())).collect::<Vec<_>>(),
                trace.events, res.err.replace('\n', " | "));
        }
        // see Drv/C40.lean: files written without a preceding snapshot over a disk that differed from tree_state
        let dirty = wss_parts.iter().any(|p| p.0 == ws && p.1 != p.2);
        let d_tok = if dirty && ev.contains('W') && !ev.contains('S') { "?".to_string() } else { disk_after.to_string() };
        let resp = format!("{status} {ev} d={d_tok} o={o_after}");
        let mut rec = Rec::new(Some(req.clone()), resp);
        rec.tallies.push(("command", cmd_name.clone()));
        rec.tallies.push(("status", if stale { "stale".into() } else if res.code == 0 { "ok".into() } else { "command error".into() }));
        rec.tallies.push(("events", ev.clone()));
        if at_op.is_some() {
            rec.tallies.push(("flag", "--at-op".into()));
        }
        if ign {
            rec.tallies.push(("flag", "--ignore-working-copy".into()));
        }
        if n_tx > 1 {
            rec.tallies.push(("multi-tx", cmd_name.clone()));
        }
        rec.tallies.push(("workspaces", nws.to_string()));
        if !in_view && at_op.is_none() && !ign {
            rec.tallies.push(("workspace-absent-from-view", cmd_name.clone()));
        }
        if !edits.is_empty() {
            rec.tallies.push(("edits-before", edits.len().to_string()));
        }
        let disk_changed: Vec<usize> = (0..disks0.len()).filter(|i| disks1[*i] != disks0[*i]).collect();
        if !disk_changed.is_empty() || ev.contains('S') || stale {
            rec.nontrivial = Some(req);
        }

        // --- the property's own statement
        let detail = |w: &World, what: &str| {
            format!("script {idx} step {step}: edits {edits:?} then `jj {}` in workspace {} (exit {}): {what}; trace {:?}", args.join(" "), w.names[ws], res.code, trace.events)
        };
        if at_op.is_some() || ign {
            if disk_changed.is_empty() {
                rec.oracle_ok += 1;
            } else {
                rec.fails.push(("disk-touched-without-wc".into(), detail(&w, &format!("files of workspace(s) {disk_changed:?} changed although the command must not touch the working copy"))));
            }
        }
        for &x in &disk_changed {
            if x != ws {
                rec.fails.push(("other-workspace-touched".into(), detail(&w, &format!("files of workspace {} changed", w.names[x]))));
                continue;
            }
            // operations that were in the log before the first file write
            let mut known: Vec<OpInfo> = ops_snapshot.clone();
            known.extend(trace.adds_before_write.iter().filter_map(|h| by_id.get(h.as_str()).map(|o| (*o).clone())));
            let want = disk_ids0[x];
            let mut found = false;
            let mut conflicted = false;
            for o in &known {
                if let Some(c) = o.view.get(&w.names[x]) {
                    let c = c.clone();
                    if let Ok(t) = w.commit_tree_id(&store1, &c) {
                        if t == want {
                            found = true;
                            break;
                        }
                        if w.commit_conflicted.contains(&c) {
                            conflicted = true;
                        }
                    }
                }
            }
            if found {
                rec.oracle_ok += 1;
                rec.tallies.push(("recorded-by", if trace.adds_before_write.is_empty() { "earlier operation" } else { "operation of this command" }.into()));
            } else if conflicted {
                rec.tallies.push(("inconclusive", "working-copy commit with conflicts (files on disk are materialized conflicts)".into()));
            } else {
                rec.fails.push((
                    if in_view { "lost-disk-state".into() } else { "lost-disk-state:workspace-absent-from-view".to_string() },
                    detail(&w, &format!("files of workspace {} changed ({:?} -> {:?}) but no operation in the log before the first file write records the files found at command start",
                        w.names[x], disks0[x].keys().collect::<Vec<_>>(), disks1[x].keys().collect::<Vec<_>>())),
                ));
            }
        }
        if ev.contains('X') {
            rec.fails.push(("other-workspace-touched".into(), detail(&w, "the trace shows file writes in another workspace's directory")));
        }
        if disk_changed.is_empty() && !(at_op.is_some() || ign) {
            rec.oracle_ok += 1; // nothing was written: nothing can have been lost
        }
        if trace.wrote && !disk_changed.contains(&ws) && disks0[ws] == disks1[ws] {
            rec.tallies.push(("trace", "file writes that left the files as they were".into()));
        }
        all_ops_seen.extend(w.ops.iter().map(|o| o.id.clone()));
        let stop = !rec.fails.is_empty();
        recs.push(rec);
        if stop {
            break;
        }
    }
    // recorded states stay recoverable: every operation ever seen is still reachable from the op heads
    {
        let mut rec = Rec::new(None, String::new());
        let before: BTreeSet<String> = all_ops_seen.clone();
        w.op_index.clear();
        w.ops.clear();
        match w.observe(&[]) {
            Ok(_) => {
                let now: BTreeSet<String> = w.ops.iter().map(|o| o.id.clone()).collect();
                if before.is_subset(&now) {
                    rec.oracle_ok += 1;
                } else {
                    rec.fails.push(("operation-left-the-log".into(), format!("script {idx}: operations {:?} are no longer reachable from the op heads", before.difference(&now).collect::<Vec<_>>())));
                }
            }
            Err(e) => rec.notes.push(format!("script {idx}: final log read failed: {e}")),
        }
        recs.push(rec);
    }
    recs
}

/// Deterministic reproducer of the gap found by the random scripts: when the workspace has no
/// working-copy commit in the loaded view, the snapshot is skipped but the checkout still happens.
fn absent_workspace_scenario(seed: u64) -> Rec {
    let mut rec = Rec::new(None, String::new());
    let env = Env::new("c40a", seed.wrapping_add(4040));
    let root = env.root.clone();
    let mut w = World {
        env,
        dirs: vec![root.join("r")],
        names: vec!["default".into()],
        interned: HashMap::new(),
        commit_tree: HashMap::new(),
        commit_conflicted: BTreeSet::new(),
        op_index: HashMap::new(),
        ops: vec![],
        settings: testutils::user_settings(),
        commits: BTreeSet::new(),
    };
    let r: Result<(), String> = (|| {
        let run = |w: &mut World, cwd: &Path, args: &[&str]| -> Result<Res, String> {
            let r = w.env.jj(cwd, args);
            if r.code != 0 { Err(format!("jj {args:?}: {}", r.err)) } else { Ok(r) }
        };
        run(&mut w, &root, &["git", "init", "r"])?;
        let d = root.join("r");
        std::fs::write(d.join("a"), "1\n").unwrap();
        run(&mut w, &d, &["commit", "-m", "c1"])?;
        let x = run(&mut w, &d, &["op", "log", "--no-graph", "-n", "1", "-T", "id"])?.out.trim().to_string();
        std::fs::write(d.join("a"), "2\n").unwrap();
        run(&mut w, &d, &["commit", "-m", "c2"])?;
        // back to the root operation: the view has no workspace any more
        run(&mut w, &d, &["op", "restore", "000000000000"])?;
        std::fs::write(d.join("a"), "EDIT\n").unwrap();
        let before = disk_state(&d);
        let c = w.env.jj(&d, &["op", "restore", &x]);
        let after = disk_state(&d);
        if after == before {
            rec.oracle_ok += 1;
            rec.tallies.push(("absent-workspace scenario", "files untouched".into()));
            return Ok(());
        }
        let (_, store) = w.observe(&[])?;
        let want = w.intern(key_of_disk(&before));
        let ops = w.ops.clone();
        let mut found = false;
        for o in &ops {
            if let Some(cid) = o.view.get("default") {
                if w.commit_tree_id(&store, cid)? == want {
                    found = true;
                }
            }
        }
        if found {
            rec.oracle_ok += 1;
            rec.tallies.push(("absent-workspace scenario", "edit recorded".into()));
        } else {
            rec.tallies.push(("absent-workspace scenario", "unrecorded edit overwritten".into()));
            rec.fails.push((
                "lost-disk-state:workspace-absent-from-view".into(),
                format!("jj op restore 000000000000 (view without the workspace); echo EDIT > a; `jj op restore {}` exit {}: file a now {:?}; no operation of the log records a = EDIT",
                    &x[..12.min(x.len())], c.code, after.get("a").map(|v| String::from_utf8_lossy(&v.1).to_string())),
            ));
        }
        Ok(())
    })();
    if let Err(e) = r {
        rec.notes.push(format!("absent-workspace scenario could not be run: {}", e.chars().take(300).collect::<String>()));
    }
    rec
}

pub fn run(cfg: &Cfg, out: &mut Out) {
    let scripts = cfg.extra.iter().find_map(|a| a.strip_prefix("repos=").and_then(|n| n.parse().ok())).unwrap_or(cfg.n(150, 2000) as usize);
    if let Some(list) = cfg.extra.iter().find_map(|a| a.strip_prefix("script=")) {
        // development aid: run the listed scripts only
        for one in list.split(',').filter_map(|n| n.parse::<u64>().ok()) {
            for rec in run_script(cfg.seed, one, 14) {
                if let Some(req) = &rec.req {
                    out.case(req, &rec.resp);
                }
            }
        }
        return;
    }
    let steps = 14;
    let seed = cfg.seed;
    let t0 = std::time::Instant::now();
    let mut all = vec![vec![absent_workspace_scenario(seed)]];
    all.extend(par_map(scripts, |i| match guard(|| run_script(seed, i as u64, steps)) {
        Ok(v) => v,
        Err(e) => {
            let mut rec = Rec::new(None, String::new());
            rec.fails.push(("harness-panic".into(), format!("script {i}: {e}")));
            vec![rec]
        }
    }));
    for recs in all {
        for rec in recs {
            match &rec.req {
                Some(req) => {
                    out.case(req, &rec.resp);
                }
                None => out.impl_only(),
            }
            for (c, k) in &rec.tallies {
                out.tally(c, k);
            }
            if let Some(k) = &rec.nontrivial {
                out.nontrivial(k);
            }
            for _ in 0..rec.oracle_ok {
                out.oracle_ok();
            }
            for (sig, detail) in rec.fails {
                out.oracle_fail(&sig, detail);
            }
            for n in rec.notes {
                out.note(n);
            }
        }
    }
    out.note(format!("{scripts} scripts x {steps} steps through the real binary with JJ_VERIF_TRACE ({:.1} s)", t0.elapsed().as_secs_f64()));
}
