//! C42 — immutable commits are never rewritten (CLI level, real `jj` binary).
//!
//! Per case: a random small repository, a random `immutable_heads()` configuration, a random
//! command aimed at random commits (mutable and immutable).  The request carries the commit graph
//! as jj reports it (commits named by harness-chosen small integers), the heads of
//! `immutable_heads()`, `@`, and the command; the implementation's answer is the immutable set jj
//! reports plus what happened: `rejected` (exit ≠ 0 with "is immutable"), `err`, or `ok` with the
//! sets of rewritten / abandoned visible commits observed by comparing `jj log` before and after.
//!
//! Oracle (from the property text, independent of the model): without `--ignore-immutable`, every
//! commit in `immutable()` before the command is still visible with the same commit id afterwards
//! (and the immutable set is identical unless the command moves refs); editing a file while `@` is
//! immutable and running any command leaves the old `@` untouched and creates a child holding the edit.
#[path = "../clih.rs"]
mod clih;
use crate::rt::*;
use clih::*;
use std::collections::{BTreeSet, HashMap};
use std::path::{Path, PathBuf};

const TEMPLATE: &str = concat!(
    r#"change_id ++ "|" ++ commit_id ++ "|" ++ parents.map(|p| p.commit_id()).join(",") ++ "|" ++ "#,
    r#"if(immutable,"I","m") ++ if(self.contained_in("immutable()"),"I","m") ++ "#,
    r#"if(self.contained_in("immutable_heads()"),"H","-") ++ if(empty,"E","-") ++ if(description,"D","-") ++ "#,
    r#"if(local_bookmarks,"B","-") ++ if(tags,"T","-") ++ if(current_working_copy,"@","-") ++ "#,
    r#"if(working_copies,"W","-") ++ "\n""#
);

#[derive(Clone, Debug)]
struct CInfo {
    change: String,
    commit: String,
    parents: Vec<String>,
    imm_kw: bool,
    imm: bool,
    head: bool,
    empty: bool,
    desc: bool,
    refd: bool,
    wc: bool,
    is_root: bool,
}

#[derive(Clone, Debug)]
struct State {
    /// children first (order of `jj log`)
    commits: Vec<CInfo>,
}

struct Rec {
    req: Option<String>,
    resp: String,
    tallies: Vec<(&'static str, String)>,
    nontrivial: Option<String>,
    oracle_ok: u32,
    fails: Vec<(String, String)>,
    notes: Vec<String>,
}

impl Rec {
    fn new(req: Option<String>, resp: String) -> Rec {
        Rec { req, resp, tallies: vec![], nontrivial: None, oracle_ok: 0, fails: vec![], notes: vec![] }
    }
}

struct Repo {
    env: Env,
    dir: PathBuf,
    ids: HashMap<String, u64>,
    next_id: u64,
    base_expr: String,
    kind: usize,
}

fn imm_arg(expr: &str) -> String {
    format!("--config=revset-aliases.\"immutable_heads()\"={}", toml_str(expr))
}

fn toml_str(s: &str) -> String {
    format!("'{}'", s) // expressions used here contain no single quote
}

impl Repo {
    fn read_state(&mut self, expr: &str) -> Result<State, String> {
        let cfg = imm_arg(expr);
        let r = self.env.jj(&self.dir, &["log", "--no-graph", "--ignore-working-copy", "-r", "all()", "-T", TEMPLATE, &cfg]);
        if r.code != 0 {
            return Err(format!("log failed: {}", r.err));
        }
        let mut commits = vec![];
        for line in r.out.lines() {
            let f: Vec<&str> = line.split('|').collect();
            if f.len() != 4 || f[3].len() != 9 {
                return Err(format!("bad log line {line:?}"));
            }
            let fl: Vec<char> = f[3].chars().collect();
            let is_root = f[1].chars().all(|c| c == '0');
            commits.push(CInfo {
                change: f[0].to_string(),
                commit: f[1].to_string(),
                parents: if f[2].is_empty() { vec![] } else { f[2].split(',').map(str::to_string).collect() },
                imm_kw: fl[0] == 'I',
                imm: fl[1] == 'I',
                head: fl[2] == 'H',
                empty: fl[3] == 'E',
                desc: fl[4] == 'D',
                refd: fl[5] == 'B' || fl[6] == 'T' || (fl[8] == 'W' && fl[7] != '@'),
                wc: fl[7] == '@',
                is_root,
            });
        }
        let mut seen = BTreeSet::new();
        for c in &commits {
            if !seen.insert(c.change.clone()) {
                return Err(format!("divergent change {}", c.change));
            }
        }
        for c in &commits {
            if c.is_root {
                self.ids.insert(c.change.clone(), 0);
            }
        }
        // number new changes parents-first so that ids grow along the topological order
        for c in commits.iter().rev() {
            if !self.ids.contains_key(&c.change) {
                self.ids.insert(c.change.clone(), self.next_id);
                self.next_id += 1;
            }
        }
        Ok(State { commits })
    }
    fn id(&self, c: &CInfo) -> u64 {
        self.ids[&c.change]
    }
}

impl State {
    fn by_commit(&self, id: &str) -> Option<&CInfo> {
        self.commits.iter().find(|c| c.commit == id)
    }
    fn by_change(&self, ch: &str) -> Option<&CInfo> {
        self.commits.iter().find(|c| c.change == ch)
    }
    fn wc(&self) -> Option<&CInfo> {
        self.commits.iter().find(|c| c.wc)
    }
}

fn graph_token(repo: &Repo, s: &State) -> String {
    let mut parts = vec![];
    for c in s.commits.iter().rev() {
        if c.is_root {
            continue;
        }
        let ps: Vec<u64> = c.parents.iter().map(|p| repo.id(s.by_commit(p).expect("parent visible"))).collect();
        let mut fl = String::new();
        if c.empty && !c.desc && !c.refd {
            fl.push('d');
        }
        if c.empty {
            fl.push('e');
        }
        if fl.is_empty() {
            fl.push('-');
        }
        parts.push(format!("{}:{}:{}", repo.id(c), show_list(&ps), fl));
    }
    if parts.is_empty() { "-".into() } else { parts.join(";") }
}

fn sorted_ids(repo: &Repo, it: impl Iterator<Item = impl std::borrow::Borrow<CInfo>>) -> Vec<u64> {
    let mut v: Vec<u64> = it.map(|c| repo.id(c.borrow())).collect();
    v.sort();
    v.dedup();
    v
}

/// descendants (inclusive) of `start` in `s`, by commit id — the harness's own graph walk (used only
/// to classify oracle failures, never to decide them)
fn descendants(s: &State, start: &str) -> BTreeSet<String> {
    let mut set: BTreeSet<String> = BTreeSet::new();
    set.insert(start.to_string());
    for c in s.commits.iter().rev() {
        if c.parents.iter().any(|p| set.contains(p)) {
            set.insert(c.commit.clone());
        }
    }
    set
}

struct Planned {
    kind: &'static str,
    req: String,
    args: Vec<String>,
    /// exact prediction expected from the model (else the observed sets are sent along)
    exact: bool,
    moves_refs: bool,
    token: String,
    /// both-flags placements: kind of the `-B` commits and position of the `-A` commit
    placement: Option<String>,
}

fn rev_of(c: &CInfo) -> String {
    if c.is_root { "root()".to_string() } else { c.change.clone() }
}

fn pick<'a>(r: &mut Rng, s: &'a State, allow_root: bool) -> &'a CInfo {
    let imm: Vec<&CInfo> = s.commits.iter().filter(|c| c.imm && !c.is_root).collect();
    let mt: Vec<&CInfo> = s.commits.iter().filter(|c| !c.imm).collect();
    let root = s.commits.iter().find(|c| c.is_root).unwrap();
    let roll = r.below(100);
    if allow_root && roll < 7 {
        root
    } else if !imm.is_empty() && (roll < 45 || mt.is_empty()) {
        imm[r.below(imm.len())]
    } else if !mt.is_empty() {
        mt[r.below(mt.len())]
    } else {
        root
    }
}

/// Targets of a placement with BOTH `--insert-after X` and `--insert-before Y…` (third arm of
/// `compute_commit_location`).  `focus`: the dedicated stream — the first `-B` commit is immutable
/// (non-root) in 60 % of the draws, and `X` is taken from outside the descendants of the `-B`
/// commits in 3 of 4 draws (otherwise the loop check refuses a mutable placement and hides nothing
/// but an immutable one: the immutability check comes first).
fn pick_ab<'a>(r: &mut Rng, s: &'a State, focus: bool) -> (&'a CInfo, Vec<&'a CInfo>) {
    let imm: Vec<&CInfo> = s.commits.iter().filter(|c| c.imm && !c.is_root).collect();
    let mt: Vec<&CInfo> = s.commits.iter().filter(|c| !c.imm).collect();
    let y0 = if focus {
        if !imm.is_empty() && (r.below(100) < 60 || mt.is_empty()) {
            imm[r.below(imm.len())]
        } else if !mt.is_empty() {
            mt[r.below(mt.len())]
        } else {
            pick(r, s, true)
        }
    } else {
        pick(r, s, true)
    };
    let mut ys = vec![y0];
    if r.chance(1, 4) {
        let y1 = pick(r, s, false);
        if y1.commit != y0.commit {
            ys.push(y1);
        }
    }
    let mut below: BTreeSet<String> = BTreeSet::new();
    for y in &ys {
        below.extend(descendants(s, &y.commit));
    }
    let outside: Vec<&CInfo> = s.commits.iter().filter(|c| !below.contains(&c.commit)).collect();
    let (num, den) = if focus { (3, 4) } else { (1, 2) };
    let x = if !outside.is_empty() && r.chance(num, den) { outside[r.below(outside.len())] } else { pick(r, s, true) };
    (x, ys)
}

fn plan(r: &mut Rng, repo: &mut Repo, s: &State, expr: &str, token: &str, force: Option<usize>, focus: bool) -> Planned {
    let k = force.unwrap_or_else(|| r.below(27));
    let ids = repo.ids.clone();
    let id = |c: &CInfo| ids[&c.change];
    let mut exact = true;
    let mut moves_refs = false;
    let mut placement = None;
    let (kind, req, args): (&'static str, String, Vec<String>) = match k {
        0 => {
            let a = pick(r, s, true);
            let mut ts = vec![a];
            if r.chance(1, 3) {
                ts.push(pick(r, s, false));
            }
            let mut args = vec!["describe".to_string(), "-m".into(), token.to_string()];
            args.extend(ts.iter().map(|c| rev_of(c)));
            ("describe", format!("describe {}", show_list(&ts.iter().map(|c| id(c)).collect::<Vec<_>>())), args)
        }
        1 => {
            let a = pick(r, s, true);
            let mut ts = vec![a];
            if r.chance(1, 3) {
                ts.push(pick(r, s, false));
            }
            let mut args = vec!["abandon".to_string()];
            args.extend(ts.iter().map(|c| rev_of(c)));
            ("abandon", format!("abandon {}", show_list(&ts.iter().map(|c| id(c)).collect::<Vec<_>>())), args)
        }
        2 | 3 | 4 | 5 | 6 => {
            let (x, d) = (pick(r, s, true), pick(r, s, true));
            let (name, flag, dflag) = match k {
                2 => ("rebase-s", "-s", "-d"),
                3 => ("rebase-b", "-b", "-d"),
                4 => ("rebase-r", "-r", "-d"),
                5 => ("rebase-r-after", "-r", "-A"),
                _ => ("rebase-r-before", "-r", "-B"),
            };
            if k >= 5 {
                exact = false;
            }
            (name, format!("{name} {} {}", id(x), id(d)), vec!["rebase".into(), flag.into(), rev_of(x), dflag.into(), rev_of(d)])
        }
        7 => {
            let (x, y) = (pick(r, s, true), pick(r, s, true));
            if x.empty {
                exact = false;
            }
            ("squash-into", format!("squash-into {} {}", id(x), id(y)),
             vec!["squash".into(), "--from".into(), rev_of(x), "--into".into(), rev_of(y), "-m".into(), token.to_string()])
        }
        8 => {
            let x = pick(r, s, true);
            if x.empty {
                exact = false;
            }
            ("squash-parent", format!("squash-parent {}", id(x)), vec!["squash".into(), "-r".into(), rev_of(x), "-m".into(), token.to_string()])
        }
        9 => {
            let x = pick(r, s, true);
            ("new-after", format!("new-after {}", id(x)), vec!["new".into(), "--no-edit".into(), "-A".into(), rev_of(x)])
        }
        10 => {
            let x = pick(r, s, true);
            ("new-before", format!("new-before {}", id(x)), vec!["new".into(), "--no-edit".into(), "-B".into(), rev_of(x)])
        }
        11 => {
            let x = pick(r, s, true);
            ("new-on", format!("new-on {}", id(x)), vec!["new".into(), rev_of(x)])
        }
        12 => {
            let x = pick(r, s, true);
            ("edit", format!("edit {}", id(x)), vec!["edit".into(), rev_of(x)])
        }
        13 => {
            let x = pick(r, s, true);
            ("metaedit", format!("metaedit {}", id(x)), vec!["metaedit".into(), "--author".into(), format!("{token} <{token}@example.com>"), rev_of(x)])
        }
        14 => {
            let (src, x) = (pick(r, s, true), pick(r, s, true));
            let differs = if src.commit == x.commit {
                false
            } else {
                let d = repo.env.jj(&repo.dir, &["diff", "--ignore-working-copy", "--summary", "--from", &rev_of(src), "--to", &rev_of(x), &imm_arg(expr)]);
                !d.out.trim().is_empty()
            };
            ("restore-into", format!("restore-into {} {} {}", id(src), id(x), differs as u8),
             vec!["restore".into(), "--from".into(), rev_of(src), "--into".into(), rev_of(x)])
        }
        15 => {
            let x = pick(r, s, true);
            ("restore-changes", format!("restore-changes {}", id(x)), vec!["restore".into(), "--changes-in".into(), rev_of(x)])
        }
        16 => {
            let x = pick(r, s, true);
            ("split", format!("split {}", id(x)), vec!["split".into(), "-r".into(), rev_of(x), "-m".into(), token.to_string(), ".".into()])
        }
        17 => {
            let x = pick(r, s, true);
            if x.empty {
                exact = false;
            }
            ("diffedit", format!("diffedit {}", id(x)), vec!["diffedit".into(), "-r".into(), rev_of(x), "--tool".into(), "cgt".into()])
        }
        18 => {
            let (x, y) = (pick(r, s, false), pick(r, s, true));
            if x.is_root {
                exact = false;
            }
            ("duplicate-after", format!("duplicate-after {} {}", id(x), id(y)), vec!["duplicate".into(), rev_of(x), "-A".into(), rev_of(y)])
        }
        19 => {
            let (a, b) = (pick(r, s, false), pick(r, s, false));
            exact = false;
            let mut ts = vec![id(a), id(b)];
            ts.dedup();
            ("parallelize", format!("parallelize {}", show_list(&ts)), vec!["parallelize".into(), rev_of(a), rev_of(b)])
        }
        20 => {
            let x = pick(r, s, true);
            exact = false;
            ("simplify-parents", format!("simplify-parents {}", id(x)), vec!["simplify-parents".into(), "-r".into(), rev_of(x)])
        }
        21 => {
            let x = pick(r, s, true);
            moves_refs = true;
            let j = r.below(2);
            let args = if repo.kind == 1 {
                vec!["bookmark".into(), "set".into(), format!("imm{j}"), "-r".into(), rev_of(x), "--allow-backwards".into()]
            } else {
                vec!["tag".into(), "set".into(), format!("t{j}"), "-r".into(), rev_of(x), "--allow-move".into()]
            };
            ("ref-set", format!("ref-set {}", id(x)), args)
        }
        22 => ("commit", "commit".to_string(), vec!["commit".into(), "-m".into(), token.to_string()]),
        _ => {
            // 23 new, 24 rebase -r, 25 duplicate, 26 revert — each with `-A X -B Y [-B Y2]`
            let (x, ys) = pick_ab(r, s, focus);
            let non_root: Vec<&CInfo> = s.commits.iter().filter(|c| !c.is_root).collect();
            // the commit that is moved / copied / reverted
            let z = if non_root.is_empty() {
                pick(r, s, true)
            } else if k == 24 {
                pick(r, s, false)
            } else {
                non_root[r.below(non_root.len())]
            };
            let k = if z.is_root && k == 26 { 23 } else { k }; // reverting the root commit is not modelled
            let ys_tok = show_list(&ys.iter().map(|c| id(c)).collect::<Vec<_>>());
            let x_below = ys.iter().any(|y| descendants(s, &y.commit).contains(&x.commit));
            placement = Some(format!(
                "-B {}, -A {}",
                if ys.iter().any(|y| y.is_root) { "root" } else if ys.iter().any(|y| y.imm) { "immutable" } else { "mutable" },
                if x_below { "a descendant of a -B commit (loop)" } else { "not a descendant of the -B commits" }
            ));
            let mut args: Vec<String> = match k {
                23 => vec!["new".into(), "--no-edit".into(), "-m".into(), token.to_string()],
                24 => vec!["rebase".into(), "-r".into(), rev_of(z)],
                25 => vec!["duplicate".into(), rev_of(z)],
                _ => vec!["revert".into(), "-r".into(), rev_of(z)],
            };
            args.push("--insert-after".into());
            args.push(rev_of(x));
            for y in &ys {
                args.push("--insert-before".into());
                args.push(rev_of(y));
            }
            match k {
                23 => ("new-ab", format!("new-ab {} {ys_tok}", id(x)), args),
                24 => {
                    exact = false;
                    ("rebase-r-ab", format!("rebase-r-ab {} {} {ys_tok}", id(z), id(x)), args)
                }
                25 => ("duplicate-ab", format!("duplicate-ab {} {} {ys_tok}", id(z), id(x)), args),
                _ => ("revert-ab", format!("revert-ab {} {} {ys_tok}", id(z), id(x)), args),
            }
        }
    };
    Planned { kind, req, args, exact, moves_refs, token: token.to_string(), placement }
}

fn build_repo(r: &mut Rng, idx: u64, seed: u64) -> Result<(Repo, State), String> {
    let mut env = Env::new("c42", seed.wrapping_mul(1_000_003).wrapping_add(idx));
    // diff editor used by `diffedit`: gives every changed path fresh content
    let tool = env.root.join("tool.sh");
    std::fs::write(
        &tool,
        "#!/bin/sh\n# $1 = left dir, $2 = right dir\nfor d in \"$1\" \"$2\"; do for f in \"$d\"/*; do n=$(basename \"$f\"); [ \"$n\" = JJ-INSTRUCTIONS ] && continue; [ \"$n\" = '*' ] && continue; echo \"$CG_TOKEN\" > \"$2/$n\"; done; done\n",
    )
    .map_err(|e| e.to_string())?;
    {
        use std::os::unix::fs::PermissionsExt;
        std::fs::set_permissions(&tool, std::fs::Permissions::from_mode(0o755)).map_err(|e| e.to_string())?;
    }
    let mut cfg = std::fs::read_to_string(&env.cfg).unwrap();
    cfg.push_str(&format!("[merge-tools.cgt]\nprogram = \"{}\"\nedit-args = [\"$left\", \"$right\"]\n", tool.display()));
    std::fs::write(&env.cfg, cfg).unwrap();
    let root = env.root.clone();
    let res = env.jj(&root, &["git", "init", "r"]);
    if res.code != 0 {
        return Err(format!("git init: {}", res.err));
    }
    let dir = env.root.join("r");
    let n = r.range(3, 6);
    for k in 1..=n {
        let mut parents: Vec<String> = vec![];
        let np = if k >= 3 && r.chance(1, 4) { 2 } else { 1 };
        while parents.len() < np {
            // 0 = root, else commit p (the git backend has no merges with the root commit)
            // (rewrites that would create one fail with a backend error; keep children of the root rare)
            let p = if np == 2 || (k > 1 && r.chance(3, 4)) { r.range(1, k - 1) } else { r.below(k) };
            let rv = if p == 0 { "root()".to_string() } else { format!("description(glob:\"c{p}*\")") };
            if !parents.contains(&rv) {
                parents.push(rv);
            }
        }
        let mut args = vec!["new".to_string(), "-m".into(), format!("c{k}")];
        args.extend(parents);
        let a: Vec<&str> = args.iter().map(String::as_str).collect();
        let res = env.jj(&dir, &a);
        if res.code != 0 {
            return Err(format!("new: {}", res.err));
        }
        std::fs::write(dir.join(format!("f{k}")), format!("content {k}\n")).map_err(|e| e.to_string())?;
    }
    // where `@` ends up: a fresh empty commit on a random commit, or an existing commit
    let t = r.range(1, n);
    let res = if r.chance(2, 3) {
        env.jj(&dir, &["new", &format!("description(glob:\"c{t}*\")")])
    } else {
        env.jj(&dir, &["edit", &format!("description(glob:\"c{t}*\")")])
    };
    if res.code != 0 {
        return Err(format!("final new/edit: {}", res.err));
    }
    let kind = r.below(4);
    let mut repo = Repo { env, dir, ids: HashMap::new(), next_id: 1, base_expr: String::new(), kind };
    let s0 = repo.read_state("none()")?;
    let non_root: Vec<&CInfo> = s0.commits.iter().filter(|c| !c.is_root && !c.wc).collect();
    let nheads = r.range(0, 2).min(non_root.len());
    let mut heads: Vec<&CInfo> = vec![];
    while heads.len() < nheads {
        let c = non_root[r.below(non_root.len())];
        if !heads.iter().any(|h| h.commit == c.commit) {
            heads.push(c);
        }
    }
    repo.base_expr = match kind {
        0 => "builtin_immutable_heads()".to_string(),
        1 => "bookmarks(glob:\"imm*\")".to_string(),
        2 => {
            if heads.is_empty() { "none()".to_string() } else { heads.iter().map(|h| format!("present({})", h.change)).collect::<Vec<_>>().join(" | ") }
        }
        _ => "none()".to_string(),
    };
    if kind <= 1 {
        for (j, h) in heads.iter().enumerate() {
            let name = if kind == 0 { format!("t{j}") } else { format!("imm{j}") };
            let res = if kind == 0 {
                repo.env.jj(&repo.dir, &["tag", "set", &name, "-r", &h.change, "--ignore-working-copy"])
            } else {
                repo.env.jj(&repo.dir, &["bookmark", "create", &name, "-r", &h.change, "--ignore-working-copy"])
            };
            if res.code != 0 {
                return Err(format!("ref setup: {}", res.err));
            }
        }
    }
    let expr = repo.base_expr.clone();
    let s = repo.read_state(&expr)?;
    Ok((repo, s))
}

fn classify(res: &Res) -> &'static str {
    if res.code == 0 {
        "ok"
    } else if res.err.contains("is immutable") {
        "rejected"
    } else {
        "err"
    }
}

/// One repository: a sequence of steps, each one request/answer pair.
/// `focus`: the stream dedicated to placements with both `--insert-after` and `--insert-before`
/// (every step is one of the four `-A X -B Y` forms; the repository always has a non-root immutable commit).
fn run_repo(cfg_seed: u64, idx: u64, steps: usize, stream: u64, focus: bool) -> Vec<Rec> {
    let mut r = Rng(cfg_seed.wrapping_mul(0x9E3779B97F4A7C15) ^ (stream.wrapping_add(idx)).wrapping_mul(0xD1B54A32D192ED03));
    let mut recs = vec![];
    let (mut repo, mut state) = match build_repo(&mut r, idx, cfg_seed) {
        Ok(x) => x,
        Err(e) => {
            let mut rec = Rec::new(None, String::new());
            rec.notes.push(format!("repo {idx}: setup failed: {}", e.chars().take(300).collect::<String>()));
            rec.tallies.push(("setup", "failed".into()));
            return vec![rec];
        }
    };
    if focus && !state.commits.iter().any(|c| c.imm && !c.is_root) {
        // nothing immutable but the root: name a random commit (not `@`) in `immutable_heads()`
        let cands: Vec<String> = state.commits.iter().filter(|c| !c.is_root && !c.wc).map(|c| c.change.clone()).collect();
        if !cands.is_empty() {
            let ch = &cands[r.below(cands.len())];
            repo.base_expr = if repo.base_expr == "none()" { format!("present({ch})") } else { format!("{} | present({ch})", repo.base_expr) };
            let e = repo.base_expr.clone();
            match repo.read_state(&e) {
                Ok(s) => state = s,
                Err(_) => return recs,
            }
        }
    }
    let mut cur_expr = repo.base_expr.clone();
    for step in 0..steps {
        let token = format!("m{idx}x{step}");
        // --- choose the flavour of this step
        let roll = r.below(100);
        let flip = !focus && roll < 16; // make `@` immutable for this invocation through the configuration
        let snap = !focus && (roll < 8 || (20..26).contains(&roll));
        let wc_change = state.wc().map(|c| c.change.clone());
        let expr = match (&wc_change, flip) {
            (Some(ch), true) if repo.base_expr == "none()" => format!("present({ch})"),
            (Some(ch), true) => format!("{} | present({ch})", repo.base_expr),
            _ => repo.base_expr.clone(),
        };
        if expr != cur_expr {
            match repo.read_state(&expr) {
                Ok(s) => state = s,
                Err(e) => {
                    let mut rec = Rec::new(None, String::new());
                    rec.notes.push(format!("repo {idx} step {step}: {e}"));
                    recs.push(rec);
                    return recs;
                }
            }
            cur_expr = expr.clone();
        }
        let Some(wc) = state.wc().cloned() else { return recs };
        let ign = !snap && !flip && r.chance(1, 16);
        let heads = sorted_ids(&repo, state.commits.iter().filter(|c| c.head && !c.is_root));
        let imm_ids = sorted_ids(&repo, state.commits.iter().filter(|c| c.imm));
        let graph = graph_token(&repo, &state);
        let wc_id = repo.id(&wc);
        let cfg_arg = imm_arg(&expr);

        let mut rec;
        let planned;
        let res;
        if snap {
            // edit a file, then run a read-only command: the implicit snapshot must record the edit
            std::fs::write(repo.dir.join(format!("w{step}")), format!("{token}\n")).unwrap();
            let ro: &[&[&str]] = &[&["status"], &["log", "-r", "@"], &["diff", "--stat"], &["show", "--summary"]];
            let mut args: Vec<&str> = ro[r.below(ro.len())].to_vec();
            args.push(&cfg_arg);
            res = repo.env.jj(&repo.dir, &args);
            planned = None;
        } else {
            let force = if flip {
                Some([22usize, 11, 12, 0, 1, 13, 16, 8, 10, 15, 7, 2][r.below(12)])
            } else if focus {
                Some([23usize, 23, 24, 24, 25, 26][r.below(6)])
            } else {
                None
            };
            let p = plan(&mut r, &mut repo, &state, &expr, &token, force, focus);
            let mut args: Vec<&str> = p.args.iter().map(String::as_str).collect();
            args.push(&cfg_arg);
            if ign {
                args.push("--ignore-immutable");
            }
            res = repo.env.jj_env(&repo.dir, &args, &[("CG_TOKEN", &p.token)]);
            planned = Some(p);
        }
        let after = match repo.read_state(&expr) {
            Ok(s) => s,
            Err(e) => {
                let mut rec = Rec::new(None, String::new());
                rec.notes.push(format!("repo {idx} step {step}: after {:?}: {}", planned.as_ref().map(|p| p.kind), e.chars().rev().take(160).collect::<Vec<_>>().into_iter().rev().collect::<String>()));
                rec.tallies.push(("aborted", if e.contains("divergent") { "divergent change after the step".into() } else { e.chars().take(40).collect() }));
                recs.push(rec);
                return recs;
            }
        };
        // --- observed effect on the commits visible before
        let mut rw = vec![];
        let mut ab = vec![];
        for c in state.commits.iter().filter(|c| !c.is_root) {
            match after.by_change(&c.change) {
                None => ab.push(repo.id(c)),
                Some(n) if n.commit != c.commit => rw.push(repo.id(c)),
                _ => {}
            }
        }
        rw.sort();
        ab.sort();
        let outcome = classify(&res);
        if res.err.contains("does not support creating merge commits with the root commit") {
            // limitation of the git backend, unrelated to the property; nothing was committed
            let mut rec = Rec::new(None, String::new());
            rec.tallies.push(("skipped", "git backend: merge with the root commit".into()));
            recs.push(rec);
            state = after;
            continue;
        }
        let imm_tok = format!("imm={}", show_list(&imm_ids));
        let kind: &str = planned.as_ref().map(|p| p.kind).unwrap_or("snapshot");

        if let Some(p) = &planned {
            let mode = if p.exact { "=".to_string() } else { format!("obs:{}/{}", show_list(&rw), show_list(&ab)) };
            let req = format!("run {graph} {} {wc_id} {} {mode} {}", show_list(&heads), ign as u8, p.req);
            let resp = match outcome {
                "ok" if p.exact => format!("{imm_tok} ok rw={} ab={}", show_list(&rw), show_list(&ab)),
                "ok" => format!("{imm_tok} ok within"),
                o if rw.is_empty() && ab.is_empty() => format!("{imm_tok} {o}"),
                o => format!("{imm_tok} {o}-but-changed rw={} ab={}", show_list(&rw), show_list(&ab)),
            };
            rec = Rec::new(Some(req.clone()), resp);
            rec.tallies.push(("command", p.kind.to_string()));
            rec.tallies.push(("outcome", outcome.to_string()));
            rec.tallies.push(("mode", if p.exact { "exact" } else { "bound" }.to_string()));
            if let Some(pl) = &p.placement {
                rec.tallies.push(("placement -A/-B", format!("{pl}: {outcome}")));
            }
            if outcome == "err" {
                rec.tallies.push(("err", format!("{}: {}", p.kind, res.err.lines().next().unwrap_or("").chars().take(50).collect::<String>())));
            }
            let touches_imm = res.err.contains("is immutable") && !res.err.contains("root commit");
            if (outcome == "rejected" && touches_imm) || (outcome == "ok" && !(rw.is_empty() && ab.is_empty())) {
                rec.nontrivial = Some(req);
            }
        } else {
            let req = format!("snap {graph} {} {wc_id} 0", show_list(&heads));
            let new_wc = after.wc();
            let resp = match (after.by_commit(&wc.commit), new_wc) {
                (Some(_), Some(nw)) if nw.parents == vec![wc.commit.clone()] && rw.is_empty() && ab.is_empty() => format!("{imm_tok} child:{wc_id}"),
                _ if outcome == "ok" => format!("{imm_tok} amend rw={}", show_list(&rw)),
                _ => format!("{imm_tok} {outcome}"),
            };
            rec = Rec::new(Some(req.clone()), resp);
            rec.tallies.push(("command", "snapshot".into()));
            rec.tallies.push(("snapshot", if wc.imm { "on-immutable-wc" } else { "on-mutable-wc" }.into()));
            rec.nontrivial = Some(req);
            // property text, second half: snapshot on an immutable `@` creates a new commit on top
            if wc.imm {
                let ok = after.by_commit(&wc.commit).is_some()
                    && new_wc.map(|nw| nw.parents == vec![wc.commit.clone()] && !nw.empty && nw.commit != wc.commit).unwrap_or(false);
                if ok {
                    rec.oracle_ok += 1;
                } else {
                    rec.fails.push((
                        "snapshot-on-immutable:no-child".into(),
                        format!("edited w{step} while @ = {} was immutable (immutable_heads = {expr}); afterwards @ = {:?}, old @ visible: {}",
                            wc.commit, new_wc.map(|c| (&c.commit, &c.parents, c.empty)), after.by_commit(&wc.commit).is_some()),
                    ));
                }
            }
        }
        // --- the property's own statement on the implementation's output
        if !ign {
            let lost: Vec<&CInfo> = state.commits.iter().filter(|c| c.imm && after.by_commit(&c.commit).is_none()).collect();
            if lost.is_empty() {
                rec.oracle_ok += 1;
            } else {
                // `unguarded-wc:new-on` / `:edit` are known findings (maybe_abandon_wc_commit);
                // `unguarded-wc:commit` is the signature of the finding repaired by /repo edbccd1 —
                // kept so that the defect, should it return, is reported under its old name (a VIOLATION)
                let below_wc = descendants(&state, &wc.commit);
                let sig = if matches!(kind, "commit" | "new-on" | "edit") && lost.iter().all(|c| below_wc.contains(&c.commit)) {
                    format!("unguarded-wc:{kind}")
                } else {
                    format!("immutable-changed:{kind}")
                };
                rec.fails.push((
                    sig,
                    format!("repo {idx} step {step}: `jj {}` (immutable_heads = {expr}, @ = {}) exit {}; immutable commits no longer visible: {:?}; graph {graph} heads {}",
                        planned.as_ref().map(|p| p.args.join(" ")).unwrap_or_else(|| "<read-only command after a file edit>".into()),
                        wc_id, res.code, lost.iter().map(|c| (repo.id(c), c.commit.chars().take(12).collect::<String>())).collect::<Vec<_>>(), show_list(&heads)),
                ));
            }
            let moves_refs = planned.as_ref().map(|p| p.moves_refs).unwrap_or(false);
            if !moves_refs && lost.is_empty() {
                let before: BTreeSet<&str> = state.commits.iter().filter(|c| c.imm).map(|c| c.commit.as_str()).collect();
                let now: BTreeSet<&str> = after.commits.iter().filter(|c| c.imm).map(|c| c.commit.as_str()).collect();
                if before == now {
                    rec.oracle_ok += 1;
                } else {
                    rec.fails.push((format!("immutable-set-changed:{kind}"), format!("repo {idx} step {step}: immutable() before {before:?} after {now:?} (immutable_heads = {expr})")));
                }
            }
        }
        // the `immutable` template keyword and the `immutable()` revset alias must agree
        if state.commits.iter().all(|c| c.imm == c.imm_kw) {
            rec.oracle_ok += 1;
        } else {
            rec.fails.push(("immutable-keyword-vs-revset".into(), format!("repo {idx} step {step}: {:?}", state.commits.iter().map(|c| (c.imm, c.imm_kw)).collect::<Vec<_>>())));
        }
        rec.tallies.push(("config", ["default+tags", "bookmarks(imm*)", "explicit change ids", "none()"][repo.kind].to_string()));
        if flip {
            rec.tallies.push(("wc", "immutable-by-config".into()));
        }
        if ign {
            rec.tallies.push(("flag", "--ignore-immutable".into()));
        }
        if focus {
            rec.tallies.push(("stream", "both -A and -B".into()));
        }
        if after.wc().map(|c| c.imm).unwrap_or(false) {
            rec.tallies.push(("after", "wc-immutable".into()));
        }
        let stop = !rec.fails.is_empty() || (ign && state.commits.iter().any(|c| c.imm && !c.is_root && after.by_commit(&c.commit).is_none()));
        recs.push(rec);
        if stop {
            break; // refs may now point at hidden commits; the graph jj shows is no longer the whole story
        }
        state = after;
    }
    recs
}

/// The realistic reproducer of the formerly unguarded `jj commit` (finding `unguarded-wc:commit`,
/// repaired by /repo edbccd1): default configuration, two workspaces; the main workspace tags the
/// secondary workspace's `@`, which makes it immutable, then `jj commit -m y` runs in the secondary
/// workspace.  Two request/answer pairs through the ordinary `run` protocol:
///   1. `jj commit -m y`                      — the model says `rejected`; the tagged commit must stay;
///   2. `jj commit -m z --ignore-immutable`   — the model says `ok rw=<@> ab=-`.
/// Oracle (property text): after step 1 every commit of `immutable()` is still visible with the same
/// commit id (in particular the tagged `@`); if the defect returns this fails with the old signature.
fn two_workspace_scenario(seed: u64) -> Vec<Rec> {
    let mut recs = vec![];
    let mut env = Env::new("c42w", seed.wrapping_add(77));
    let root = env.root.clone();
    let run = |env: &mut Env, cwd: &Path, args: &[&str]| -> Result<Res, String> {
        let r = env.jj(cwd, args);
        if r.code != 0 { Err(format!("jj {args:?}: {}", r.err)) } else { Ok(r) }
    };
    const EXPR: &str = "builtin_immutable_heads()";
    let w2dir: Result<PathBuf, String> = (|| {
        run(&mut env, &root, &["git", "init", "r"])?;
        let main = root.join("r");
        std::fs::write(main.join("a"), "a\n").unwrap();
        run(&mut env, &main, &["commit", "-m", "c1"])?;
        run(&mut env, &main, &["workspace", "add", "../w2"])?;
        let w2 = root.join("w2");
        std::fs::write(w2.join("f"), "in w2\n").unwrap();
        run(&mut env, &w2, &["status"])?;
        // another workspace tags w2's working-copy commit: it is now immutable under the default configuration
        run(&mut env, &main, &["tag", "set", "v1", "-r", "w2@"])?;
        Ok(w2)
    })();
    let mut repo = match w2dir {
        Ok(w2) => Repo { env, dir: w2, ids: HashMap::new(), next_id: 1, base_expr: EXPR.to_string(), kind: 0 },
        Err(e) => {
            let mut rec = Rec::new(None, String::new());
            rec.notes.push(format!("two-workspace scenario could not be set up: {e}"));
            rec.tallies.push(("two-workspace", "setup failed".into()));
            return vec![rec];
        }
    };
    let steps: [(&[&str], bool, &str); 2] =
        [(&["commit", "-m", "y"], false, "jj commit"), (&["commit", "-m", "z", "--ignore-immutable"], true, "jj commit --ignore-immutable")];
    let mut state = match repo.read_state(EXPR) {
        Ok(s) => s,
        Err(e) => {
            let mut rec = Rec::new(None, String::new());
            rec.notes.push(format!("two-workspace scenario: {e}"));
            return vec![rec];
        }
    };
    for (args, ign, label) in steps {
        let Some(wc) = state.wc().cloned() else { break };
        if !wc.imm {
            let mut rec = Rec::new(None, String::new());
            rec.notes.push(format!("two-workspace scenario: w2@ {} is not immutable after `jj tag set v1 -r w2@`", wc.commit));
            rec.tallies.push(("two-workspace", "setup: w2@ not immutable".into()));
            recs.push(rec);
            break;
        }
        let heads = sorted_ids(&repo, state.commits.iter().filter(|c| c.head && !c.is_root));
        let imm_ids = sorted_ids(&repo, state.commits.iter().filter(|c| c.imm));
        let graph = graph_token(&repo, &state);
        let wc_id = repo.id(&wc);
        let dir = repo.dir.clone();
        let res = repo.env.jj(&dir, args);
        let after = match repo.read_state(EXPR) {
            Ok(s) => s,
            Err(e) => {
                let mut rec = Rec::new(None, String::new());
                rec.notes.push(format!("two-workspace scenario: after `{label}`: {e}"));
                rec.tallies.push(("aborted", "two-workspace: log after the step failed".into()));
                recs.push(rec);
                break;
            }
        };
        let mut rw = vec![];
        let mut ab = vec![];
        for c in state.commits.iter().filter(|c| !c.is_root) {
            match after.by_change(&c.change) {
                None => ab.push(repo.id(c)),
                Some(n) if n.commit != c.commit => rw.push(repo.id(c)),
                _ => {}
            }
        }
        rw.sort();
        ab.sort();
        let outcome = classify(&res);
        let imm_tok = format!("imm={}", show_list(&imm_ids));
        let req = format!("run {graph} {} {wc_id} {} = commit", show_list(&heads), ign as u8);
        let resp = match outcome {
            "ok" => format!("{imm_tok} ok rw={} ab={}", show_list(&rw), show_list(&ab)),
            o if rw.is_empty() && ab.is_empty() => format!("{imm_tok} {o}"),
            o => format!("{imm_tok} {o}-but-changed rw={} ab={}", show_list(&rw), show_list(&ab)),
        };
        let mut rec = Rec::new(Some(req.clone()), resp);
        rec.tallies.push(("command", "commit".into()));
        rec.tallies.push(("outcome", outcome.to_string()));
        rec.tallies.push(("mode", "exact".into()));
        rec.tallies.push(("config", "default+tags".into()));
        rec.tallies.push(("wc", "immutable-by-other-workspace".into()));
        rec.tallies.push(("two-workspace", format!("`{label}` with @ tagged from the other workspace: {outcome}{}", if rw.is_empty() && ab.is_empty() { ", nothing rewritten" } else { ", @ rewritten" })));
        if outcome == "rejected" || !(rw.is_empty() && ab.is_empty()) {
            rec.nontrivial = Some(req);
        }
        let lost: Vec<&CInfo> = state.commits.iter().filter(|c| c.imm && after.by_commit(&c.commit).is_none()).collect();
        if ign {
            rec.tallies.push(("flag", "--ignore-immutable".into()));
        } else if lost.is_empty() {
            rec.oracle_ok += 1;
            // nothing else may have moved either: same immutable set, same `@`
            let before: BTreeSet<&str> = state.commits.iter().filter(|c| c.imm).map(|c| c.commit.as_str()).collect();
            let now: BTreeSet<&str> = after.commits.iter().filter(|c| c.imm).map(|c| c.commit.as_str()).collect();
            if before == now {
                rec.oracle_ok += 1;
            } else {
                rec.fails.push(("immutable-set-changed:commit".into(), format!("two-workspace scenario: immutable() before {before:?} after {now:?}")));
            }
        } else {
            rec.fails.push((
                "unguarded-wc:commit".into(),
                format!(
                    "default config, workspace w2: `jj tag set v1 -r w2@` (run in the other workspace) made w2's @ {} immutable; `jj commit -m y` in w2 exit {} rewrote it (immutable commits no longer visible: {:?})",
                    &wc.commit[..12.min(wc.commit.len())], res.code, lost.iter().map(|c| c.commit.chars().take(12).collect::<String>()).collect::<Vec<_>>()
                ),
            ));
        }
        let stop = !rec.fails.is_empty() || outcome != "rejected";
        recs.push(rec);
        if stop {
            break; // step 2 needs the untouched state; after a successful commit `@` has moved on
        }
        state = after;
    }
    recs
}

pub fn run(cfg: &Cfg, out: &mut Out) {
    // `repos=N` on the command line overrides the tier's count (development aid)
    let repos = cfg.extra.iter().find_map(|a| a.strip_prefix("repos=").and_then(|n| n.parse().ok())).unwrap_or(cfg.n(200, 3000) as usize);
    let steps = 10;
    let seed = cfg.seed;
    let t0 = std::time::Instant::now();
    let mut all: Vec<Vec<Rec>> = vec![two_workspace_scenario(seed)];
    all.extend(par_map(repos, |i| match guard(|| run_repo(seed, i as u64, steps, 4200, false)) {
        Ok(v) => v,
        Err(e) => {
            let mut rec = Rec::new(None, String::new());
            rec.fails.push(("harness-panic".into(), format!("repo {i}: {e}")));
            vec![rec]
        }
    }));
    // stream dedicated to placements with both `--insert-after` and `--insert-before` (`ab=N` overrides the count)
    let ab_repos = cfg.extra.iter().find_map(|a| a.strip_prefix("ab=").and_then(|n| n.parse().ok())).unwrap_or(cfg.n(30, 400) as usize);
    let ab_steps = 8;
    all.extend(par_map(ab_repos, |i| match guard(|| run_repo(seed, 100_000 + i as u64, ab_steps, 4300, true)) {
        Ok(v) => v,
        Err(e) => {
            let mut rec = Rec::new(None, String::new());
            rec.fails.push(("harness-panic".into(), format!("-A/-B repo {i}: {e}")));
            vec![rec]
        }
    }));
    let mut n_repos = 0;
    for recs in all {
        n_repos += 1;
        for rec in recs {
            match &rec.req {
                Some(req) => {
                    out.case(req, &rec.resp);
                }
                None => out.impl_only(),
            }
            for (c, k) in &rec.tallies {
                out.tally(c, k);
            }
            if let Some(k) = &rec.nontrivial {
                out.nontrivial(k);
            }
            for _ in 0..rec.oracle_ok {
                out.oracle_ok();
            }
            for (sig, detail) in rec.fails {
                out.oracle_fail(&sig, detail);
            }
            for n in rec.notes {
                out.note(n);
            }
        }
    }
    out.note(format!(
        "{} repositories x {steps} steps + {ab_repos} repositories x {ab_steps} steps of placements with both -A and -B; every step = 1 command + 1 `jj log` through the real binary ({:.1} s)",
        n_repos - 1 - ab_repos,
        t0.elapsed().as_secs_f64()
    ));
}
