//! C35 — quoted symbols and strings survive the expression languages.
//!
//! Real functions: `dsl_util::escape_string`, `revset::{format_symbol, format_string,
//! format_remote_symbol, parse_symbol, parse_program}`, `fileset::parse`,
//! `jj_cli::template_parser::parse_template`.
//!   * `parse_literal r <text>`: revset `parse_program` → `ExpressionKind::String`;
//!   * `parse_literal t <text>`: template `parse_template` → `ExpressionKind::String`;
//!   * `parse_literal f <text>`: the fileset parser module is private; the decoded string is
//!     observed through `fileset::parse("root-file:" + text)` → `FilePattern::FilePath(p)`, which is
//!     the identity on strings that are `/`-joined plain names (C32 `roundtrip_fs_repo`); other
//!     strings are not observable in the fileset language and are skipped there (tallied);
//!   * `parse_remote <text>`: `parse_program` → `ExpressionKind::RemoteSymbol`; anything else = none.
//! Strings travel as comma-separated code points.  Non-ASCII characters are restricted to the ten
//! for which the model's `xidApprox` is documented.
//!
//! Oracle (property text): `parse(format_string(s)) == s` in the three languages;
//! `parse_symbol(format_symbol(s)) == s` and `parse(format_remote_symbol(n, r)) == n@r` for
//! non-empty names.
use crate::rt::*;
use jj_lib::dsl_util;
use jj_lib::fileset::{self, FilePattern, FilesetAliasesMap, FilesetDiagnostics, FilesetExpression, FilesetParseContext};
use jj_lib::repo_path::RepoPathUiConverter;
use jj_lib::revset;
use std::path::PathBuf;

fn cps(s: &str) -> String {
    if s.is_empty() { "-".into() } else { s.chars().map(|c| (c as u32).to_string()).collect::<Vec<_>>().join(",") }
}
fn show_opt(o: &Option<String>) -> String { match o { None => "none".into(), Some(s) => format!("some:{}", cps(s)) } }

fn revset_literal(text: &str) -> Option<String> {
    match revset::parse_program(text) {
        Ok(node) => match node.kind { revset::ExpressionKind::String(s) => Some(s), _ => None },
        Err(_) => None,
    }
}
fn template_literal(text: &str) -> Option<String> {
    match jj_cli::template_parser::parse_template(text) {
        Ok(node) => match node.kind { jj_cli::template_parser::ExpressionKind::String(s) => Some(s), _ => None },
        Err(_) => None,
    }
}
/// `Some(Some(s))`: decoded `s`; `Some(None)`: not a string literal; `None`: not observable
fn fileset_literal(text: &str, expect: &Option<String>) -> Option<Option<String>> {
    if let Some(s) = expect { if !path_safe(s) { return None; } }
    let conv = RepoPathUiConverter::Fs { cwd: PathBuf::from("/w"), base: PathBuf::from("/w") };
    let aliases = FilesetAliasesMap::new();
    let ctx = FilesetParseContext { aliases_map: &aliases, path_converter: &conv };
    let mut diag = FilesetDiagnostics::new();
    Some(match fileset::parse(&mut diag, &format!("root-file:{text}"), &ctx) {
        Ok(FilesetExpression::Pattern(FilePattern::FilePath(p))) => Some(p.as_internal_file_string().to_string()),
        _ => None,
    })
}
fn path_safe(s: &str) -> bool { s.is_empty() || s.split('/').all(|c| !c.is_empty() && c != "." && c != "..") }

fn remote_real(text: &str) -> Option<(String, String)> {
    match revset::parse_program(text) {
        Ok(node) => match node.kind { revset::ExpressionKind::RemoteSymbol(sym) => Some((sym.name.as_str().to_string(), sym.remote.as_str().to_string())), _ => None },
        Err(_) => None,
    }
}

const XID_TRUE: [char; 6] = ['é', '日', '本', '\u{b7}', '\u{301}', '\u{663}'];
const XID_FALSE: [char; 4] = ['→', '€', '\u{a0}', '“'];
const SPECIAL: [char; 30] = ['"', '\\', '\'', '@', ' ', '\t', '\n', '\r', '\0', '\x01', '\x1b', '\x7f', '\x0c', '\x1f', '|', '&', '~', ')', '-', '+', '.', ':', '*', '/', '_', ',', '=', '#', '^', 'x'];
const PLAIN: [char; 8] = ['a', 'b', 'z', 'A', '0', '9', '_', 'e'];

fn gen_char(r: &mut Rng, allow_paren: bool) -> char {
    match r.below(10) {
        0 | 1 | 2 | 3 => *r.pick(&PLAIN),
        4 => *r.pick(&XID_TRUE),
        5 => if r.chance(1, 2) { *r.pick(&XID_FALSE) } else if allow_paren { '(' } else { '!' },
        _ => *r.pick(&SPECIAL),
    }
}
fn gen_string(r: &mut Rng, max: usize) -> String { (0..r.below(max + 1)).map(|_| gen_char(r, true)).collect() }
/// names that are mostly identifiers (parts joined by separators), sometimes spoiled
fn gen_name(r: &mut Rng) -> String {
    let mut s = String::new();
    for i in 0..r.range(1, 3) {
        if i > 0 { s.push_str(*r.pick(&[".", "-", "--", "+", "/", "*", "-.", "..", "@"])); }
        for _ in 0..r.range(0, 3) { s.push(if r.chance(1, 12) { gen_char(r, true) } else if r.chance(1, 6) { *r.pick(&XID_TRUE) } else { *r.pick(&PLAIN) }); }
    }
    s
}
/// body of a would-be literal: escape sequences (valid and invalid), stray quotes, raw characters
fn gen_literal_text(r: &mut Rng) -> String {
    let mut s = String::from("\"");
    for _ in 0..r.below(6) {
        match r.below(8) {
            0 => { s.push('\\'); s.push(*r.pick(&['t', 'r', 'n', '0', 'e', '"', '\\', 'a', 'u', 'x', 'X', '\'', ' '])); }
            1 => { s.push_str("\\x"); for _ in 0..r.below(3) { s.push(*r.pick(&['0', '7', '9', 'a', 'f', 'A', 'F', 'g', 'G', '"', 'x'])); } }
            2 => s.push(*r.pick(&['"', '\\', '\''])),
            _ => s.push(gen_char(r, true)),
        }
    }
    s.push('"');
    s
}

fn literal_cases(out: &mut Out, text: &str) -> Option<String> {
    let rv = revset_literal(text);
    out.case(&format!("parse_literal r {}", cps(text)), &show_opt(&rv));
    let tv = template_literal(text);
    out.case(&format!("parse_literal t {}", cps(text)), &show_opt(&tv));
    match fileset_literal(text, &rv) {
        Some(fv) => { out.case(&format!("parse_literal f {}", cps(text)), &show_opt(&fv)); out.tally("fileset-literal", "observed"); }
        None => out.tally("fileset-literal", "not-a-plain-path(unobservable)"),
    }
    out.tally("literal", if rv.is_some() { "some" } else { "none" });
    rv
}

/// escape → parse in the three languages
fn escape_case(out: &mut Out, s: &str) {
    let esc = dsl_util::escape_string(s);
    out.case(&format!("escape {}", cps(s)), &cps(&esc));
    let text = revset::format_string(s);
    if text != format!("\"{esc}\"") { out.oracle_fail("dsl:format-string-not-quoted-escape", format!("format_string({s:?}) = {text:?}")); return; }
    if s.chars().any(|c| c == '"' || c == '\\' || c.is_ascii_control()) { out.nontrivial(("esc", s.to_string())); }
    let rv = revset_literal(&text);
    out.case(&format!("parse_literal r {}", cps(&text)), &show_opt(&rv));
    let tv = template_literal(&text);
    out.case(&format!("parse_literal t {}", cps(&text)), &show_opt(&tv));
    let fv = if path_safe(s) { let fv = fileset_literal(&text, &Some(s.to_string())).unwrap(); out.case(&format!("parse_literal f {}", cps(&text)), &show_opt(&fv)); out.tally("fileset-literal", "observed"); Some(fv) } else { out.tally("fileset-literal", "not-a-plain-path(unobservable)"); None };
    let want = Some(s.to_string());
    if rv != want { out.oracle_fail("dsl:escaped-string-misparsed-revset", format!("{s:?} escaped as {text:?} parses to {rv:?}")); }
    else if tv != want { out.oracle_fail("dsl:escaped-string-misparsed-template", format!("{s:?} escaped as {text:?} parses to {tv:?}")); }
    else if fv.is_some() && fv != Some(want) { out.oracle_fail("dsl:escaped-string-misparsed-fileset", format!("{s:?} escaped as {text:?} parses to {fv:?}")); }
    else { out.oracle_ok(); }
}

fn symbol_case(out: &mut Out, s: &str) {
    let text = revset::format_symbol(s);
    out.case(&format!("format_symbol {}", cps(s)), &cps(&text));
    out.tally("format_symbol", if text == s { "identifier" } else { "quoted" });
    let back = revset::parse_symbol(&text).ok();
    out.case(&format!("parse_symbol {}", cps(&text)), &show_opt(&back));
    out.nontrivial(("sym", s.to_string()));
    if s.is_empty() { out.tally("premise", "empty-name(out of scope)"); return; }
    if back.as_deref() == Some(s) { out.oracle_ok(); }
    else { out.oracle_fail("dsl:formatted-symbol-misparsed", format!("{s:?} formatted as {text:?} parses to {back:?}")); }
}

fn remote_case(out: &mut Out, n: &str, r: &str) {
    let text = revset::format_remote_symbol(n, r);
    out.case(&format!("format_remote {} {}", cps(n), cps(r)), &cps(&text));
    let back = remote_real(&text);
    out.case(&format!("parse_remote {}", cps(&text)), &match &back { None => "none".to_string(), Some((a, b)) => format!("some:{}:{}", cps(a), cps(b)) });
    out.nontrivial(("rem", n.to_string(), r.to_string()));
    if n.is_empty() || r.is_empty() { out.tally("premise", "empty-name(out of scope)"); return; }
    if back == Some((n.to_string(), r.to_string())) { out.oracle_ok(); }
    else { out.oracle_fail("dsl:formatted-remote-symbol-misparsed", format!("{n:?}@{r:?} formatted as {text:?} parses to {back:?}")); }
}

/// raw (unformatted) texts: the model's parsers must agree with the real ones on them too
fn raw_symbol_text_case(out: &mut Out, text: &str) {
    let back = revset::parse_symbol(text).ok();
    out.case(&format!("parse_symbol {}", cps(text)), &show_opt(&back));
    out.tally("raw-parse_symbol", if back.is_some() { "some" } else { "none" });
}
fn raw_remote_text_case(out: &mut Out, text: &str) {
    if text.contains('(') { return; } // parenthesised / function-call primaries are outside the model's fragment
    let back = remote_real(text);
    out.case(&format!("parse_remote {}", cps(text)), &match &back { None => "none".to_string(), Some((a, b)) => format!("some:{}:{}", cps(a), cps(b)) });
    out.tally("raw-parse_remote", if back.is_some() { "some" } else { "none" });
}

fn all_strings(len: usize, alpha: &[char], f: &mut impl FnMut(&str)) {
    let mut idx = vec![0usize; len];
    loop {
        let st: String = idx.iter().map(|i| alpha[*i]).collect();
        f(&st);
        let mut i = 0;
        loop {
            if i == len { return; }
            idx[i] += 1;
            if idx[i] < alpha.len() { break; }
            idx[i] = 0;
            i += 1;
        }
    }
}

pub fn run(cfg: &Cfg, out: &mut Out) {
    // 1. every single character of interest, and all pairs over a small alphabet
    for c in (0u8..=0x7f).map(|b| b as char).chain(XID_TRUE).chain(XID_FALSE) {
        let s = c.to_string();
        escape_case(out, &s);
        symbol_case(out, &s);
        remote_case(out, &s, "o");
        remote_case(out, "n", &s);
    }
    let small = ['a', '"', '\\', '\n', '\x01', '\x7f', 'x', '0', 't', '\''];
    for len in [0usize, 2] { all_strings(len, &small, &mut |s| { escape_case(out, s); symbol_case(out, s); }); }
    let ident = ['a', '-', '.', '+', '*', '/', '_', '@', '9', 'é'];
    let max_len = if cfg.tier == Tier::Quick { 3 } else { 4 };
    for len in 2..=max_len { all_strings(len, &ident, &mut |s| { symbol_case(out, s); raw_symbol_text_case(out, s); raw_remote_text_case(out, s); }); }
    out.note(format!("exhaustive: every ASCII character and the 10 documented non-ASCII characters alone (escape, symbol, remote); all pairs over {small:?} (escape, symbol); all strings of length 2..={max_len} over {ident:?} (format_symbol, raw parse_symbol / parse_remote); then random"));
    // 2. random
    let mut r = cfg.rng(35);
    for _ in 0..cfg.n(6000, 150_000) {
        let s = gen_string(&mut r, 8);
        escape_case(out, &s);
        let name = if r.chance(1, 3) { gen_string(&mut r, 6) } else { gen_name(&mut r) };
        symbol_case(out, &name);
        let (n, rem) = (gen_name(&mut r), if r.chance(1, 4) { gen_string(&mut r, 5) } else { gen_name(&mut r) });
        remote_case(out, &n, &rem);
        let lit = gen_literal_text(&mut r);
        literal_cases(out, &lit);
        raw_symbol_text_case(out, &if r.chance(1, 2) { lit.clone() } else if r.chance(1, 2) { format!("'{}'", gen_string(&mut r, 4)) } else { gen_name(&mut r) });
        let ws = |r: &mut Rng| if r.chance(1, 8) { *r.pick(&[" ", "\t", "\n", "\x0c", "  "]) } else { "" };
        let raw = format!("{}{}@{}{}", ws(&mut r), gen_name(&mut r), gen_name(&mut r), ws(&mut r));
        raw_remote_text_case(out, &raw);
    }
}
