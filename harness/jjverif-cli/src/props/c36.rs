//! C36 — expression parsers never crash.
//!
//! Real entry points (all run under `rt::guard`; a panic is an oracle failure):
//!   revset   `revset::parse_program`, `revset::parse_symbol`, `RevsetAliasesMap::insert` (alias
//!            declarations), `dsl_util::expand_aliases`, `revset::parse` (parse + alias expansion + lowering);
//!   fileset  `fileset::parse`, `fileset::parse_maybe_bare`, `FilesetAliasesMap::insert`;
//!   template `template_parser::parse_template`, `template_parser::parse` (with aliases),
//!            `TemplateAliasesMap::insert`.
//!
//! Correspondence (`parse <grammar> <rule> <hex utf8>` → `ok` | `err`): the model is a recogniser for the
//! pest grammar, so the implementation's answer is classified at the *grammar level*, in both directions:
//! `err` iff the entry point fails with error kind `SyntaxError` (which in the three parsers is produced
//! only by `From<pest::error::Error>`, i.e. by the pest parse of the top-level text), `ok` otherwise (parsed,
//! or rejected later by the AST builder / alias expansion / name resolution with another error kind).
//!
//! `expand <aliases> <expr>`: alias expansion of generated abstract expressions, see `alias_cases`.
//!
//! Stack half: `--child-deep <kind> <n>` re-runs this binary as a child process that parses one operator
//! chain in an 8 MiB thread; an overflow aborts the child and is seen by the parent as a signal.
use crate::rt::*;
use jj_cli::template_parser::{self, TemplateAliasesMap, TemplateParseErrorKind};
use jj_lib::dsl_util;
use jj_lib::fileset::{self, FilesetAliasesMap, FilesetDiagnostics, FilesetParseContext, FilesetParseErrorKind};
use jj_lib::repo_path::RepoPathUiConverter;
use jj_lib::revset::{self, RevsetAliasesMap, RevsetDiagnostics, RevsetExtensions, RevsetParseContext, RevsetParseErrorKind};
use std::path::PathBuf;

// ------------------------------------------------------------------------------------------------
// generators

const IDENTS: &[&str] = &["a", "b", "main", "x", "A", "B", "C", "f", "g", "p", "foo_bar", "v1.2-rc+3", "a/b", "*", "é", "日本", "x\u{301}",
    "0", "42", "true", "false", "all", "none", "self", "glob", "regex", "exact", "a--b", "_", "x.y", "a.b.c", "README.md", "src/*.rs", "kind-x"];
const FUNCS: &[&str] = &["all", "none", "f", "g", "h", "ancestors", "heads", "description", "author", "file", "latest", "map", "if", "label", "concat", "len", "_x9"];
const KINDS: &[&str] = &["glob", "exact", "regex", "substring", "p", "root", "cwd", "file", "kind-x", "glob-i", "x_y"];
const SPECIAL: &[char] = &['"', '\\', '\'', '@', ' ', '\t', '\n', '\r', '\x0c', '\0', '\x1b', '\x7f', '|', '&', '~', '(', ')', '-', '+', '.', ':', '*', '/', '_', ',', '=',
    '#', '^', '!', '<', '>', '%', '[', ']', '?', '$', 'x', 'a', '0', '9', 'é', '日', '\u{301}', '\u{b7}', '→', '€', '\u{a0}', '\u{80}', '\u{2028}', '\u{feff}', '\u{10ffff}', '\u{1f600}', 'Ａ', 'ǅ'];

fn ws(r: &mut Rng) -> &'static str {
    if r.chance(3, 4) { "" } else { *r.pick(&[" ", "  ", "\t", "\n", "\r\n", "\x0c", " \t "]) }
}
fn ws1(r: &mut Rng) -> &'static str { if r.chance(1, 2) { " " } else { ws(r) } }

fn gen_string_lit(r: &mut Rng) -> String {
    if r.chance(1, 3) {
        let body: String = (0..r.below(5)).map(|_| *r.pick(&['a', ' ', '"', '\\', 'é', '(', '|', '\n'])).collect();
        return format!("'{body}'");
    }
    let mut s = String::from("\"");
    for _ in 0..r.below(5) {
        match r.below(10) {
            0 => { s.push('\\'); s.push(*r.pick(&['t', 'r', 'n', '0', 'e', '"', '\\'])); }
            1 => { s.push_str("\\x"); s.push(*r.pick(&['0', '7', 'a', 'F'])); s.push(*r.pick(&['0', '9', 'f', 'A'])); }
            2 => s.push(*r.pick(&['\'', '(', ')', '|', ' ', '\n', 'é', '日'])),
            _ => s.push(*r.pick(&['a', 'b', 'z', '0', ' ', '*', '.'])),
        }
    }
    s.push('"');
    s
}

/// revset expression; `d` bounds the nesting of parentheses / function calls
fn gen_revset(r: &mut Rng, d: usize) -> String {
    let mut s = String::new();
    let terms = if r.chance(2, 3) { 1 } else { r.range(2, 3) };
    for i in 0..terms {
        if i > 0 { s.push_str(ws1(r)); s.push_str(*r.pick(&["|", "&", "~", "|", "&", "+", "-"])); s.push_str(ws1(r)); }
        for _ in 0..(if r.chance(1, 6) { r.range(1, 2) } else { 0 }) { s.push('~'); s.push_str(ws(r)); }
        s.push_str(&gen_revset_range(r, d));
    }
    s
}
fn gen_revset_range(r: &mut Rng, d: usize) -> String {
    let op = |r: &mut Rng| *r.pick(&["::", "..", ":", "::", ".."]);
    match r.below(12) {
        0 => format!("{}{}{}", gen_revset_neighbors(r, d), op(r), gen_revset_neighbors(r, d)),
        1 => format!("{}{}", gen_revset_neighbors(r, d), op(r)),
        2 => format!("{}{}", op(r), gen_revset_neighbors(r, d)),
        3 => (*r.pick(&["::", ".."])).to_string(),
        _ => gen_revset_neighbors(r, d),
    }
}
fn gen_revset_neighbors(r: &mut Rng, d: usize) -> String {
    let mut s = gen_revset_primary(r, d);
    if r.chance(1, 4) { for _ in 0..r.range(1, 3) { s.push_str(*r.pick(&["-", "+", "^", "-", "+"])); } }
    s
}
fn gen_symbol(r: &mut Rng) -> String { if r.chance(1, 4) { gen_string_lit(r) } else { (*r.pick(IDENTS)).to_string() } }
fn gen_revset_primary(r: &mut Rng, d: usize) -> String {
    match r.below(if d == 0 { 7 } else { 11 }) {
        0 | 1 | 2 => gen_symbol(r),
        3 => format!("{}@{}", gen_symbol(r), gen_symbol(r)),
        4 => format!("{}@", gen_symbol(r)),
        5 => "@".to_string(),
        6 => format!("{}:{}", r.pick(KINDS), gen_revset_neighbors(r, d.saturating_sub(1))),
        7 | 8 => format!("({}{}{})", ws(r), gen_revset(r, d - 1), ws(r)),
        _ => {
            let mut s = format!("{}({}", r.pick(FUNCS), ws(r));
            let n = r.below(4);
            for i in 0..n {
                if i > 0 { s.push_str(ws(r)); s.push(','); s.push_str(ws(r)); }
                if r.chance(1, 5) { s.push_str(*r.pick(&["x", "remote", "n_1", "a-b"])); s.push_str(ws(r)); s.push('='); s.push_str(ws(r)); }
                s.push_str(&gen_revset(r, d - 1));
            }
            if n > 0 && r.chance(1, 6) { s.push_str(ws(r)); s.push(','); }
            s.push_str(ws(r));
            s.push(')');
            s
        }
    }
}

fn gen_fileset(r: &mut Rng, d: usize) -> String {
    let mut s = String::new();
    let terms = if r.chance(2, 3) { 1 } else { r.range(2, 3) };
    for i in 0..terms {
        if i > 0 { s.push_str(ws1(r)); s.push_str(*r.pick(&["|", "&", "~"])); s.push_str(ws1(r)); }
        for _ in 0..(if r.chance(1, 6) { r.range(1, 2) } else { 0 }) { s.push('~'); s.push_str(ws(r)); }
        s.push_str(&gen_fileset_primary(r, d));
    }
    s
}
fn gen_fileset_primary(r: &mut Rng, d: usize) -> String {
    match r.below(if d == 0 { 6 } else { 9 }) {
        0 | 1 | 2 => (*r.pick(&["a", "src/lib.rs", "*.rs", "foo-bar", "a+b", "x@y", "[ab]?", "dir\\file", "..", ".", "é/日", "A", "B", "f", "v1.0", "_"])).to_string(),
        3 => gen_string_lit(r),
        4 | 5 => format!("{}:{}", r.pick(KINDS), gen_fileset_primary(r, d.saturating_sub(1))),
        6 => format!("({}{}{})", ws(r), gen_fileset(r, d - 1), ws(r)),
        _ => {
            let mut s = format!("{}({}", r.pick(FUNCS), ws(r));
            let n = r.below(3);
            for i in 0..n {
                if i > 0 { s.push_str(ws(r)); s.push(','); s.push_str(ws(r)); }
                s.push_str(&gen_fileset(r, d - 1));
            }
            if n > 0 && r.chance(1, 6) { s.push_str(ws(r)); s.push(','); }
            s.push_str(ws(r));
            s.push(')');
            s
        }
    }
}
/// texts for the bare-string fallback of `parse_maybe_bare`
fn gen_bare(r: &mut Rng) -> String {
    let mut s = String::new();
    if r.chance(1, 3) { s.push_str(*r.pick(KINDS)); s.push(':'); }
    for _ in 0..r.range(1, 6) {
        s.push_str(*r.pick(&["a", "foo bar", " ", "é", "x.y", "-", "+", "@", "*", "?", "[", "]", "/", "\\", "日本", "\u{80}", "_", ".."]));
        if r.chance(1, 12) { s.push(*r.pick(&['(', '|', '"', ',', ':', '\t', '~', '&', '#', '\x7f'])); }
    }
    s
}

fn gen_template(r: &mut Rng, d: usize) -> String {
    let mut s = String::from(ws(r));
    let n = if r.chance(2, 3) { 1 } else { r.range(2, 3) };
    for i in 0..n {
        if i > 0 { s.push_str(ws1(r)); s.push_str("++"); s.push_str(ws1(r)); }
        s.push_str(&gen_template_expr(r, d));
    }
    s.push_str(ws(r));
    s
}
fn gen_template_expr(r: &mut Rng, d: usize) -> String {
    let mut s = String::new();
    let terms = if r.chance(3, 4) { 1 } else { r.range(2, 3) };
    for i in 0..terms {
        if i > 0 { s.push_str(ws1(r)); s.push_str(*r.pick(&["||", "&&", "==", "!=", ">=", ">", "<=", "<", "+", "-", "*", "/", "%"])); s.push_str(ws1(r)); }
        for _ in 0..(if r.chance(1, 6) { r.range(1, 2) } else { 0 }) { s.push_str(*r.pick(&["!", "-"])); s.push_str(ws(r)); }
        s.push_str(&gen_template_term(r, d));
    }
    s
}
fn gen_template_call(r: &mut Rng, d: usize) -> String {
    let mut s = format!("{}{}({}", r.pick(FUNCS), ws(r), ws(r));
    let n = if d == 0 { 0 } else { *r.pick(&[0, 1, 1, 2]) };
    for i in 0..n {
        if i > 0 { s.push_str(ws(r)); s.push(','); s.push_str(ws(r)); }
        if r.chance(1, 5) { s.push_str(*r.pick(&["x", "sep", "n_1"])); s.push_str(ws(r)); s.push('='); s.push_str(ws(r)); }
        s.push_str(&gen_template(r, d - 1));
    }
    if n > 0 && r.chance(1, 6) { s.push_str(ws(r)); s.push(','); }
    s.push_str(ws(r));
    s.push(')');
    s
}
fn gen_template_term(r: &mut Rng, d: usize) -> String {
    let mut s = match r.below(if d == 0 { 6 } else { 10 }) {
        0 | 1 => (*r.pick(&["a", "b", "commit_id", "self", "A", "B", "f", "true", "false", "_x", "x9"])).to_string(),
        2 => gen_string_lit(r),
        3 => (*r.pick(&["0", "1", "42", "007", "9223372036854775807", "9223372036854775808", "10"])).to_string(),
        4 => format!("{}:{}", r.pick(KINDS), gen_template_term(r, d.saturating_sub(1))),
        5 => gen_template_call(r, 0),
        6 => format!("({})", gen_template(r, d - 1)),
        7 => {
            let params = *r.pick(&["", "x", "x, y", "x,", " x ", "x, x", "true"]);
            format!("|{params}|{}{}", ws(r), gen_template(r, d - 1))
        }
        _ => gen_template_call(r, d),
    };
    if r.chance(1, 4) {
        for _ in 0..r.range(1, 2) { s.push_str(ws(r)); s.push('.'); s.push_str(ws(r)); s.push_str(&gen_template_call(r, d.min(1))); }
    }
    s
}

/// character-level mutation of a (mostly valid) text
fn mutate(r: &mut Rng, text: &str) -> String {
    let mut cs: Vec<char> = text.chars().collect();
    for _ in 0..r.range(1, 3) {
        let n = cs.len();
        match r.below(7) {
            0 if n > 0 => { cs.remove(r.below(n)); }
            1 => { cs.insert(r.below(n + 1), *r.pick(SPECIAL)); }
            2 if n > 0 => { let i = r.below(n); cs[i] = *r.pick(SPECIAL); }
            3 if n > 1 => { let (i, j) = (r.below(n), r.below(n)); cs.swap(i, j); }
            4 if n > 0 => { cs.truncate(r.below(n)); }
            5 if n > 0 => { let i = r.below(n); let j = (i + r.range(1, 4)).min(n); let seg: Vec<char> = cs[i..j].to_vec(); let at = r.below(n + 1); for (k, c) in seg.into_iter().enumerate() { cs.insert(at + k, c); } }
            _ => { let tok = *r.pick(&["::", "..", "++", "||", "&&", "\"", "'", "\\x", "\\", "()", "(", ")", ",", "@", ":", "-", "=", "|"]); let at = r.below(n + 1); for (k, c) in tok.chars().enumerate() { cs.insert(at + k, c); } }
        }
    }
    cs.into_iter().collect()
}

fn gen_random(r: &mut Rng) -> String {
    match r.below(3) {
        // random bytes (made valid UTF-8 the way a caller would: lossily)
        0 => { let n = r.below(16); let b: Vec<u8> = (0..n).map(|_| if r.chance(1, 2) { r.below(256) as u8 } else { *r.pick(b"a(|&~:-+@\"'\\ .,)x0") }).collect(); String::from_utf8_lossy(&b).into_owned() }
        // special characters
        1 => (0..r.below(12)).map(|_| *r.pick(SPECIAL)).collect(),
        // arbitrary Unicode scalar values among plain characters (exercises the XID_CONTINUE table)
        _ => (0..r.range(1, 6)).map(|_| if r.chance(1, 2) { char::from_u32(r.below(0x110000) as u32).unwrap_or('a') } else if r.chance(1, 2) { char::from_u32(r.below(0x3000) as u32).unwrap_or('b') } else { *r.pick(&['a', '.', '-', '+', '_', '(', ')', ' ']) }).collect(),
    }
}

/// generate with `f` at nesting `d`, lowering `d` until the text has at most 8 opening parentheses and 300 bytes
fn gen_fit(r: &mut Rng, mut d: usize, f: fn(&mut Rng, usize) -> String) -> String {
    for _ in 0..12 {
        let t = f(r, d);
        if t.matches('(').count() <= 8 && t.len() <= 300 { return t; }
        d = d.saturating_sub(1);
    }
    "a".to_string()
}

/// the real revset parser is exponential in the nesting depth of parentheses / calls (also on
/// failing input): never hand it more than 8 opening parentheses
fn tame(mut s: String) -> String {
    let mut opens = 0;
    s.retain(|c| { if c == '(' { opens += 1; opens <= 8 } else { true } });
    if s.len() > 400 { let mut cut = 400; while !s.is_char_boundary(cut) { cut -= 1; } s.truncate(cut); }
    s
}

// ------------------------------------------------------------------------------------------------
// real parsers, classified at grammar level

fn answer(out: &mut Out, lang: &str, rule: &str, text: &str, res: Result<Result<(), bool>, String>) {
    // res: Ok(Ok(())) parsed; Ok(Err(is_syntax_error)); Err(panic message)
    let ans = match &res { Ok(Ok(())) => "ok", Ok(Err(true)) => "err", Ok(Err(false)) => "ok", Err(_) => "panic" };
    out.case(&format!("parse {lang} {rule} {}", hex(text.as_bytes())), ans);
    match &res {
        Ok(Ok(())) => { out.tally(&format!("{lang}:{rule}"), "accepted"); out.nontrivial((lang.to_string(), rule.to_string(), text.to_string())); out.oracle_ok(); }
        Ok(Err(true)) => { out.tally(&format!("{lang}:{rule}"), "syntax-error"); out.oracle_ok(); }
        Ok(Err(false)) => { out.tally(&format!("{lang}:{rule}"), "grammar-ok,rejected-later"); out.nontrivial((lang.to_string(), rule.to_string(), text.to_string())); out.oracle_ok(); }
        Err(msg) => out.oracle_fail(&format!("parser:panic:{lang}:{rule}"), format!("{text:?} panics: {msg}")),
    }
}

fn rs_syntax(e: &revset::RevsetParseError) -> bool { matches!(e.kind(), RevsetParseErrorKind::SyntaxError) }
fn fs_syntax(e: &fileset::FilesetParseError) -> bool { matches!(e.kind(), FilesetParseErrorKind::SyntaxError) }
fn tp_syntax(e: &template_parser::TemplateParseError) -> bool { matches!(e.kind(), TemplateParseErrorKind::SyntaxError) }

struct Aliases { revset: RevsetAliasesMap, fileset: FilesetAliasesMap, template: TemplateAliasesMap }

struct Ctx { conv: RepoPathUiConverter, ext: RevsetExtensions, now: chrono::DateTime<chrono::FixedOffset>, empty_fs: FilesetAliasesMap }

fn revset_text(out: &mut Out, cx: &Ctx, al: &Aliases, text: &str) {
    answer(out, "revset", "program", text, guard(|| revset::parse_program(text).map(|_| ()).map_err(|e| rs_syntax(&e))));
    // whole pipeline with aliases: parse, expand, lower.  Oracle only (no panic; the top-level syntax verdict is the same code path).
    let full = guard(|| {
        let pc = RevsetParseContext { aliases_map: &al.revset, local_variables: Default::default(), user_email: "u@example.org",
            date_pattern_context: cx.now.into(), default_ignored_remote: None, fileset_aliases_map: &al.fileset, extensions: &cx.ext, workspace: None };
        let mut diag = RevsetDiagnostics::new();
        match revset::parse(&mut diag, text, &pc) { Ok(_) => "ok".to_string(), Err(e) => kind_name(&format!("{:?}", e.kind())) }
    });
    out.impl_only();
    match full { Ok(k) => { out.tally("revset::parse(with aliases)", &k); out.oracle_ok(); } Err(msg) => out.oracle_fail("parser:panic:revset:parse", format!("{text:?} with aliases panics: {msg}")) }
}
fn kind_name(dbg: &str) -> String { dbg.split(|c: char| !c.is_alphanumeric()).next().unwrap_or("").to_string() }

fn fileset_text(out: &mut Out, cx: &Ctx, al: &Aliases, text: &str) {
    let ctx0 = FilesetParseContext { aliases_map: &cx.empty_fs, path_converter: &cx.conv };
    answer(out, "fileset", "program", text, guard(|| { let mut d = FilesetDiagnostics::new(); fileset::parse(&mut d, text, &ctx0).map(|_| ()).map_err(|e| fs_syntax(&e)) }));
    answer(out, "fileset", "program_or_bare_string", text, guard(|| { let mut d = FilesetDiagnostics::new(); fileset::parse_maybe_bare(&mut d, text, &ctx0).map(|_| ()).map_err(|e| fs_syntax(&e)) }));
    let ctx1 = FilesetParseContext { aliases_map: &al.fileset, path_converter: &cx.conv };
    let full = guard(|| { let mut d = FilesetDiagnostics::new(); match fileset::parse_maybe_bare(&mut d, text, &ctx1) { Ok(_) => "ok".to_string(), Err(e) => kind_name(&format!("{:?}", e.kind())) } });
    out.impl_only();
    match full { Ok(k) => { out.tally("fileset::parse_maybe_bare(with aliases)", &k); out.oracle_ok(); } Err(msg) => out.oracle_fail("parser:panic:fileset:parse", format!("{text:?} with aliases panics: {msg}")) }
}

fn template_text(out: &mut Out, al: &Aliases, text: &str) {
    answer(out, "template", "program", text, guard(|| template_parser::parse_template(text).map(|_| ()).map_err(|e| tp_syntax(&e))));
    let full = guard(|| match template_parser::parse(text, &al.template) { Ok(_) => "ok".to_string(), Err(e) => kind_name(&format!("{:?}", e.kind())) });
    out.impl_only();
    match full { Ok(k) => { out.tally("template_parser::parse(with aliases)", &k); out.oracle_ok(); } Err(msg) => out.oracle_fail("parser:panic:template:parse", format!("{text:?} with aliases panics: {msg}")) }
}

fn symbol_text(out: &mut Out, text: &str) {
    answer(out, "revset", "symbol_name", text, guard(|| revset::parse_symbol(text).map(|_| ()).map_err(|e| rs_syntax(&e))));
}

/// alias declaration through the three `AliasesMap::insert`
fn decl_text(out: &mut Out, al: &mut Aliases, decl: &str, defn: &[String; 3]) {
    let r = guard(|| al.revset.insert(decl, defn[0].clone(), None).map_err(|e| rs_syntax(&e)));
    answer(out, "revset", "alias_declaration", decl, r);
    let r = guard(|| al.fileset.insert(decl, defn[1].clone(), None).map_err(|e| fs_syntax(&e)));
    answer(out, "fileset", "alias_declaration", decl, r);
    let r = guard(|| al.template.insert(decl, defn[2].clone(), None).map_err(|e| tp_syntax(&e)));
    answer(out, "template", "alias_declaration", decl, r);
}

fn gen_decl(r: &mut Rng) -> String {
    let base = match r.below(8) {
        0 | 1 | 2 => (*r.pick(&["A", "B", "C", "a", "x", "main", "foo_bar", "kind-x", "a/b", "x.y", "a+b", "true"])).to_string(),
        3 | 4 => format!("{}({})", r.pick(&["f", "g", "h", "all", "_x9"]), r.pick(&["", "x", "x, y", "x,y,", " x ", "x, x", "a-b", "x y", ",", "true"])),
        5 | 6 => format!("{}:{}", r.pick(KINDS), r.pick(&["x", "y", "a-b", "a/b", "", "x y"])),
        _ => gen_random(r),
    };
    if r.chance(1, 5) { mutate(r, &base) } else { base }
}

fn new_aliases(r: &mut Rng, out: &mut Out) -> Aliases {
    let mut al = Aliases { revset: RevsetAliasesMap::new(), fileset: FilesetAliasesMap::new(), template: TemplateAliasesMap::new() };
    for _ in 0..r.range(3, 8) {
        let decl = gen_decl(r);
        let bad = r.chance(1, 8);
        let dd = if bad { 1 } else { 2 };
        let (a, b, c) = (gen_fit(r, dd, gen_revset), gen_fit(r, dd, gen_fileset), gen_fit(r, dd, gen_template));
        let defn = if bad { [mutate(r, &a), mutate(r, &b), mutate(r, &c)] } else { [a, b, c] };
        decl_text(out, &mut al, &tame(decl), &defn.map(tame));
    }
    al
}


// ------------------------------------------------------------------------------------------------
// alias expansion on generated abstract expressions (`expand` requests)

#[derive(Clone, Debug)]
enum Ast { Ident(usize), Call(usize, Vec<Ast>), Pat(usize, Box<Ast>), Bin(Box<Ast>, Box<Ast>) }

fn gen_ast(r: &mut Rng, d: usize, names: usize) -> Ast {
    match r.below(if d == 0 { 3 } else { 8 }) {
        0 | 1 | 2 => Ast::Ident(r.below(names)),
        3 | 4 => Ast::Call(r.below(names), (0..r.below(3)).map(|_| gen_ast(r, d - 1, names)).collect()),
        5 => Ast::Pat(r.below(names), Box::new(gen_ast(r, d - 1, names))),
        _ => Ast::Bin(Box::new(gen_ast(r, d - 1, names)), Box::new(gen_ast(r, d - 1, names))),
    }
}
/// concrete syntax (`template`: `+` instead of `&`); every binary node is parenthesised
fn render(a: &Ast, template: bool) -> String {
    match a {
        Ast::Ident(x) => format!("n{x}"),
        Ast::Call(f, args) => format!("n{f}({})", args.iter().map(|a| render(a, template)).collect::<Vec<_>>().join(", ")),
        Ast::Pat(n, v) => format!("n{n}:{}", render(v, template)),
        Ast::Bin(l, r) => format!("({} {} {})", render(l, template), if template { "+" } else { "&" }, render(r, template)),
    }
}
fn encode(a: &Ast, out: &mut Vec<usize>) {
    match a {
        Ast::Ident(x) => out.extend([0, *x]),
        Ast::Call(f, args) => { out.extend([1, *f, args.len()]); for a in args { encode(a, out); } }
        Ast::Pat(n, v) => { out.extend([2, *n]); encode(v, out); }
        Ast::Bin(l, r) => { out.push(3); encode(l, out); encode(r, out); }
    }
}
fn num(name: &str) -> usize { name.trim().trim_start_matches('n').parse().unwrap_or(999) }
fn encode_id(id: &dsl_util::AliasId<'_>, out: &mut Vec<usize>) {
    match id {
        dsl_util::AliasId::Symbol(n) => out.extend([0, num(n)]),
        dsl_util::AliasId::Pattern(n, p) => out.extend([1, num(n), num(p)]),
        dsl_util::AliasId::Function(n, ps) => { out.extend([2, num(n), ps.len()]); out.extend(ps.iter().map(|p| num(p))); }
        dsl_util::AliasId::Parameter(n) => out.extend([3, num(n)]),
    }
}
/// the `Display` form of an `AliasId` (as stored in `InAliasExpansion` / `RecursiveAlias`) back to the encoding
fn encode_id_text(t: &str) -> String {
    let mut v = Vec::new();
    if let Some((n, rest)) = t.split_once('(') {
        let ps: Vec<usize> = rest.trim_end_matches(')').split(',').filter(|p| !p.trim().is_empty()).map(num).collect();
        v.extend([2, num(n), ps.len()]); v.extend(ps);
    } else if let Some((n, p)) = t.split_once(':') { v.extend([1, num(n), num(p)]); }
    else { v.extend([0, num(t)]); }
    nums(&v)
}
fn nums(v: &[usize]) -> String { if v.is_empty() { "-".into() } else { v.iter().map(|x| x.to_string()).collect::<Vec<_>>().join(",") } }

fn encode_revset(n: &revset::ExpressionNode<'_>, out: &mut Vec<usize>) -> bool {
    use revset::ExpressionKind as K;
    match &n.kind {
        K::Identifier(x) => { out.extend([0, num(x)]); true }
        K::FunctionCall(f) => { out.extend([1, num(f.name), f.args.len()]); f.keyword_args.is_empty() && f.args.iter().all(|a| encode_revset(a, out)) }
        K::Pattern(p) => { out.extend([2, num(p.name)]); encode_revset(&p.value, out) }
        K::Binary(_, l, r) => { out.push(3); encode_revset(l, out) && encode_revset(r, out) }
        K::AliasExpanded(id, s) => { out.push(4); encode_id(id, out); encode_revset(s, out) }
        _ => false,
    }
}
fn encode_template(n: &template_parser::ExpressionNode<'_>, out: &mut Vec<usize>) -> bool {
    use template_parser::ExpressionKind as K;
    match &n.kind {
        K::Identifier(x) => { out.extend([0, num(x)]); true }
        K::FunctionCall(f) => { out.extend([1, num(f.name), f.args.len()]); f.keyword_args.is_empty() && f.args.iter().all(|a| encode_template(a, out)) }
        K::Pattern(p) => { out.extend([2, num(p.name)]); encode_template(&p.value, out) }
        K::Binary(_, l, r) => { out.push(3); encode_template(l, out) && encode_template(r, out) }
        K::AliasExpanded(id, s) => { out.push(4); encode_id(id, out); encode_template(s, out) }
        _ => false,
    }
}

fn revset_err(e: &revset::RevsetParseError) -> String {
    let mut trace = Vec::new();
    let mut cur = e;
    loop {
        match cur.kind() {
            RevsetParseErrorKind::InAliasExpansion(id) | RevsetParseErrorKind::InParameterExpansion(id) => {
                trace.push(encode_id_text(id));
                match cur.origin() { Some(o) => cur = o, None => return format!("err:no-origin:{}", trace.join("/")) }
            }
            k => {
                let what = match k {
                    RevsetParseErrorKind::RecursiveAlias(id) => format!("recursive={}", encode_id_text(id)),
                    RevsetParseErrorKind::InvalidFunctionArguments { name, .. } => format!("args={}", num(name)),
                    RevsetParseErrorKind::SyntaxError => "syntax".to_string(),
                    other => format!("other={}", kind_name(&format!("{other:?}"))),
                };
                return format!("err:{what}:{}", if trace.is_empty() { "-".to_string() } else { trace.join("/") });
            }
        }
    }
}
fn template_err(e: &template_parser::TemplateParseError) -> String {
    let mut trace = Vec::new();
    let mut cur = e;
    loop {
        match cur.kind() {
            TemplateParseErrorKind::InAliasExpansion(id) | TemplateParseErrorKind::InParameterExpansion(id) => {
                trace.push(encode_id_text(id));
                match cur.origin() { Some(o) => cur = o, None => return format!("err:no-origin:{}", trace.join("/")) }
            }
            k => {
                let what = match k {
                    TemplateParseErrorKind::RecursiveAlias(id) => format!("recursive={}", encode_id_text(id)),
                    TemplateParseErrorKind::InvalidArguments { name, .. } => format!("args={}", num(name)),
                    TemplateParseErrorKind::SyntaxError => "syntax".to_string(),
                    other => format!("other={}", kind_name(&format!("{other:?}"))),
                };
                return format!("err:{what}:{}", if trace.is_empty() { "-".to_string() } else { trace.join("/") });
            }
        }
    }
}

/// One random alias map (unique keys: symbol by name, pattern by name, function by name and arity — the
/// real map replaces on re-insertion, the model takes the first match) and a few expressions expanded under it,
/// through `dsl_util::expand_aliases` on `revset::parse_program` and through `template_parser::parse`.
fn alias_cases(r: &mut Rng, out: &mut Out) {
    let names = r.range(2, 4);
    let mut enc: Vec<usize> = Vec::new();
    let (mut rs, mut tp, mut fs) = (RevsetAliasesMap::new(), TemplateAliasesMap::new(), FilesetAliasesMap::new());
    let mut seen = std::collections::HashSet::new();
    let mut count = 0;
    for _ in 0..r.range(2, 8) {
        let name = r.below(names);
        let dd = r.range(0, 2);
        let defn = if r.chance(1, 10) { None } else { Some(gen_ast(r, dd, names)) };
        let (decl, head): (String, Vec<usize>) = match r.below(4) {
            0 | 1 => { if !seen.insert((0, name, 0)) { continue; } (format!("n{name}"), vec![0, name]) }
            2 => { if !seen.insert((1, name, 0)) { continue; } let p = r.below(names); (format!("n{name}:n{p}"), vec![1, name, p]) }
            _ => {
                let k = r.below(3);
                if !seen.insert((2, name, k)) { continue; }
                // distinct parameter names (a repeated parameter is rejected at declaration time)
                let mut ps: Vec<usize> = Vec::new();
                while ps.len() < k { let p = r.below(names + 2); if !ps.contains(&p) { ps.push(p); } }
                let mut h = vec![2, name, k]; h.extend(&ps);
                (format!("n{name}({})", ps.iter().map(|p| format!("n{p}")).collect::<Vec<_>>().join(", ")), h)
            }
        };
        enc.extend(head);
        match &defn { None => enc.push(0), Some(a) => { enc.push(1); encode(a, &mut enc); } }
        let text = |template: bool| match &defn { None => "(((".to_string(), Some(a) => render(a, template) };
        let ok = rs.insert(&decl, text(false), None).is_ok() & tp.insert(&decl, text(true), None).is_ok() & fs.insert(&decl, text(false), None).is_ok();
        if !ok { out.oracle_fail("parser:alias-declaration-rejected", format!("declaration {decl:?} rejected")); return; }
        count += 1;
    }
    let mut al = vec![count]; al.extend(enc);
    let al = nums(&al);
    for _ in 0..4 {
        let de = r.range(0, 3);
        let e = gen_ast(r, de, names);
        let mut ev = Vec::new(); encode(&e, &mut ev);
        for template in [false, true] {
            let text = render(&e, template);
            let res = guard(|| {
                if template {
                    match template_parser::parse(&text, &tp) {
                        Ok(node) => { let mut v = Vec::new(); if encode_template(&node, &mut v) { format!("ok:{}", nums(&v)) } else { "unexpected-node".to_string() } }
                        Err(e) => template_err(&e),
                    }
                } else {
                    match revset::parse_program(&text).and_then(|n| dsl_util::expand_aliases(n, &rs)) {
                        Ok(node) => { let mut v = Vec::new(); if encode_revset(&node, &mut v) { format!("ok:{}", nums(&v)) } else { "unexpected-node".to_string() } }
                        Err(e) => revset_err(&e),
                    }
                }
            });
            let lang = if template { "template" } else { "revset" };
            match res {
                Ok(ans) => {
                    out.case(&format!("expand {al} {}", nums(&ev)), &ans);
                    let key = ans.split(':').take(2).collect::<Vec<_>>().join(":");
                    out.tally(&format!("expand:{lang}"), &if ans.starts_with("ok") { if ans.contains(",4,") || ans.starts_with("ok:4,") { "ok(expanded)".to_string() } else { "ok(no alias used)".to_string() } } else { key.split('=').next().unwrap().to_string() });
                    if ans != format!("ok:{}", nums(&ev)) { out.nontrivial(("expand", al.clone(), ev.clone(), template)); }
                    // property: expansion returns an expression or reports an error (it returned)
                    out.oracle_ok();
                }
                Err(msg) => { out.case(&format!("expand {al} {}", nums(&ev)), "panic"); out.oracle_fail(&format!("parser:panic:{lang}:expand_aliases"), format!("{text:?} panics: {msg}")); }
            }
        }
        // fileset: same code path (`dsl_util::expand_aliases`), observable only as ok / error kind: no panic
        let text = render(&e, false);
        let cxf = FilesetParseContext { aliases_map: &fs, path_converter: &RepoPathUiConverter::Fs { cwd: PathBuf::from("/ws"), base: PathBuf::from("/ws") } };
        out.impl_only();
        match guard(|| { let mut d = FilesetDiagnostics::new(); fileset::parse(&mut d, &text, &cxf).is_ok() }) {
            Ok(_) => out.oracle_ok(),
            Err(msg) => out.oracle_fail("parser:panic:fileset:expand_aliases", format!("{text:?} panics: {msg}")),
        }
    }
}

// ------------------------------------------------------------------------------------------------
// stack depth: child process

const CHILD_FLAG: &str = "--child-deep";

fn deep_text(kind: &str, n: usize) -> Option<String> {
    Some(match kind {
        "prefix" => format!("{}@", "~".repeat(n)),
        "postfix" => format!("@{}", "-".repeat(n)),
        "infix" => { let mut s = String::with_capacity(4 * n); s.push('a'); for _ in 1..n { s.push_str(" & a"); } s }
        "union" => { let mut s = String::with_capacity(4 * n); s.push('a'); for _ in 1..n { s.push_str(" | a"); } s }
        _ => return None,
    })
}

/// child: parse (and drop) one chain in a thread with the default 8 MiB main-thread stack size
fn child_main(kind: &str, n: usize) -> ! {
    if kind == "alias-recursion" { child_alias_recursion(); }
    let Some(text) = deep_text(kind, n) else { std::process::exit(3) };
    let h = std::thread::Builder::new().stack_size(8 << 20).spawn(move || {
        let res = std::panic::catch_unwind(|| revset::parse_program(&text).map(|node| drop(node)).is_ok());
        match res { Ok(true) => 0, Ok(false) => 1, Err(_) => 2 }
    }).unwrap();
    let code = h.join().unwrap_or(2);
    println!("child-deep {kind} {n}: {}", ["parsed", "error", "panic"][code as usize]);
    std::process::exit(code)
}

/// child: recursive alias maps through the three expanders.  If the recursion-detection stack did not work the
/// expansion would recurse until the stack overflows, which cannot be caught in-process.
fn child_alias_recursion() -> ! {
    let h = std::thread::Builder::new().stack_size(8 << 20).spawn(move || {
        let decls = [("A", "B | x"), ("B", "C"), ("C", "(A)"), ("f(x)", "f(x)"), ("g(x)", "h(g(x))"), ("h(x)", "g(x)"), ("p:x", "p:x"), ("q:x", "A")];
        let (mut rs, mut fs, mut tp) = (RevsetAliasesMap::new(), FilesetAliasesMap::new(), TemplateAliasesMap::new());
        for (d, v) in decls { rs.insert(d, v, None).unwrap(); fs.insert(d, v, None).unwrap(); tp.insert(d, v.replace('|', "++"), None).unwrap(); }
        let conv = RepoPathUiConverter::Fs { cwd: PathBuf::from("/ws"), base: PathBuf::from("/ws") };
        let mut returned = 0;
        for text in ["A", "B", "f(a)", "g(a)", "p:a", "q:a", "x & (A)", "f(f(a))"] {
            if let Ok(n) = revset::parse_program(text) { let _ = dsl_util::expand_aliases(n, &rs); returned += 1; }
            let mut d = FilesetDiagnostics::new();
            let _ = fileset::parse(&mut d, text, &FilesetParseContext { aliases_map: &fs, path_converter: &conv });
            let _ = template_parser::parse(&text.replace('&', "+"), &tp);
        }
        returned
    }).unwrap();
    let n = h.join().unwrap_or(0);
    println!("child alias-recursion: {n} expansions returned");
    std::process::exit(if n == 8 { 0 } else { 2 })
}

/// returns true when recursive aliases are handled (the in-process alias tests are safe to run)
fn alias_recursion_probe(out: &mut Out) -> bool {
    let tmp = tempfile::tempdir().unwrap();
    let exe = std::env::current_exe().unwrap();
    let res = std::process::Command::new(exe).args(["C36", "--out", tmp.path().to_str().unwrap(), CHILD_FLAG, "alias-recursion", "0"]).output();
    out.impl_only();
    match res {
        Err(e) => { out.note(format!("could not spawn the alias-recursion child: {e}")); true }
        Ok(o) if o.status.code() == Some(0) => { out.tally("alias-recursion-child", "returned"); out.oracle_ok(); true }
        Ok(o) => {
            out.tally("alias-recursion-child", "died");
            out.oracle_fail("parser:alias-recursion-not-detected", format!("recursive aliases (A = B | x, B = C, C = (A); f(x) = f(x); g(x) = h(g(x)), h(x) = g(x); p:x = p:x) expanded in a child process: status {:?}; stderr: {}", o.status, tail(&String::from_utf8_lossy(&o.stderr))));
            false
        }
    }
}

fn deep_case(out: &mut Out, kind: &str, n: usize) {
    let text_len = deep_text(kind, n).map(|t| t.len()).unwrap_or(0);
    let tmp = tempfile::tempdir().unwrap();
    let exe = std::env::current_exe().unwrap();
    let res = std::process::Command::new(exe).args(["C36", "--out", tmp.path().to_str().unwrap(), CHILD_FLAG, kind, &n.to_string()]).output();
    out.impl_only();
    let what = format!("revset::parse_program on {kind} chain of {n} operators ({text_len} bytes) in a child process, 8 MiB stack");
    match res {
        Err(e) => out.note(format!("could not spawn child for {what}: {e}")),
        Ok(o) => {
            use std::os::unix::process::ExitStatusExt;
            let stderr = String::from_utf8_lossy(&o.stderr).to_string();
            match (o.status.code(), o.status.signal()) {
                (Some(0), _) | (Some(1), _) => { out.tally("deep-chain", &format!("{kind}:{n}:{}", if o.status.code() == Some(0) { "parsed" } else { "error" })); out.oracle_ok(); }
                (Some(2), _) => out.oracle_fail("parser:panic:revset:deep-chain", format!("{what}: panic; stderr: {}", tail(&stderr))),
                (_, Some(sig)) if stderr.contains("overflowed its stack") || sig == 11 || sig == 6 => {
                    out.tally("deep-chain", &format!("{kind}:{n}:stack-overflow"));
                    // the property says "never overflows the stack": false for chains of 100 kB – 1 MB (finding F3);
                    // an overflow on an input below 10 kB is a different matter
                    let sig_name = if text_len < 10_000 { "parser:stack-overflow:small-input" } else { "parser:stack-overflow:operator-chain" };
                    out.oracle_fail(sig_name, format!("{what}: child killed by signal {sig}; stderr: {}", tail(&stderr)));
                }
                (c, s) => out.oracle_fail("parser:child-died", format!("{what}: exit code {c:?} signal {s:?}; stderr: {}", tail(&stderr))),
            }
        }
    }
}
fn tail(s: &str) -> String { let t = s.trim(); let n = t.len(); let mut i = n.saturating_sub(200); while !t.is_char_boundary(i) { i += 1; } t[i..].replace('\n', " | ") }

// ------------------------------------------------------------------------------------------------

pub fn run(cfg: &Cfg, out: &mut Out) {
    if let Some(i) = cfg.extra.iter().position(|a| a == CHILD_FLAG) {
        let kind = cfg.extra.get(i + 1).cloned().unwrap_or_default();
        let n = cfg.extra.get(i + 2).and_then(|s| s.parse().ok()).unwrap_or(0);
        child_main(&kind, n);
    }
    std::panic::set_hook(Box::new(|_| {}));
    let cx = Ctx { conv: RepoPathUiConverter::Fs { cwd: PathBuf::from("/ws/sub"), base: PathBuf::from("/ws") }, ext: RevsetExtensions::default(),
        now: chrono::DateTime::parse_from_rfc3339("2024-05-06T07:08:09+02:00").unwrap(), empty_fs: FilesetAliasesMap::new() };

    // 1. small exhaustive part: every string of length ≤ 2 over an operator-heavy alphabet, through every entry point
    let alpha = ['a', '(', ')', '|', '~', ':', '.', '-', '+', '@', '"', '\'', '\\', ' ', ',', '=', '0', '!', '&', '*', 'é', '<'];
    let empty = Aliases { revset: RevsetAliasesMap::new(), fileset: FilesetAliasesMap::new(), template: TemplateAliasesMap::new() };
    let mut small: Vec<String> = vec![String::new()];
    for a in alpha { small.push(a.to_string()); for b in alpha { small.push(format!("{a}{b}")); } }
    if cfg.tier == Tier::Thorough { for a in alpha { for b in alpha { for c in alpha { small.push(format!("{a}{b}{c}")); } } } }
    for t in &small {
        revset_text(out, &cx, &empty, t);
        symbol_text(out, t);
        fileset_text(out, &cx, &empty, t);
        template_text(out, &empty, t);
    }
    out.note(format!("exhaustive: all {} strings of length ≤ {} over {alpha:?} through revset program / symbol_name, fileset program / program_or_bare_string, template program; then generated", small.len(), if cfg.tier == Tier::Thorough { 3 } else { 2 }));

    // 2. generated expressions, their mutations, random strings; alias maps (incl. recursive and malformed) renewed every 40 rounds
    // (recursive aliases are first tried in a child process: undetected recursion would abort this process)
    let aliases_safe = alias_recursion_probe(out);
    let mut r = cfg.rng(36);
    let mut al = new_aliases(&mut r, out);
    let rounds = cfg.n(3000, 40_000);
    for round in 0..rounds {
        if round % 40 == 39 { al = new_aliases(&mut r, out); }
        if !aliases_safe { al = Aliases { revset: RevsetAliasesMap::new(), fileset: FilesetAliasesMap::new(), template: TemplateAliasesMap::new() }; }
        // nesting: mostly ≤ 3, sometimes up to 6 (quick) — never more than 8 opening parentheses (see `tame`)
        let d = if r.chance(1, 25) { r.range(4, 6) } else { r.range(0, 3) };
        let kind = r.below(10);
        let pick = |r: &mut Rng, valid: String| -> String { tame(match kind { 0..=5 => valid, 6..=8 => mutate(r, &valid), _ => gen_random(r) }) };
        let v = gen_fit(&mut r, d, gen_revset); let t = pick(&mut r, v);
        revset_text(out, &cx, &al, &t);
        if r.chance(1, 4) { let s = if r.chance(1, 2) { gen_symbol(&mut r) } else { t.clone() }; let s = if r.chance(1, 3) { mutate(&mut r, &s) } else { s }; symbol_text(out, &tame(s)); }
        let v = if r.chance(1, 4) { gen_bare(&mut r) } else { gen_fit(&mut r, d, gen_fileset) }; let t = pick(&mut r, v);
        fileset_text(out, &cx, &al, &t);
        let v = gen_fit(&mut r, d.min(4), gen_template); let t = pick(&mut r, v);
        template_text(out, &al, &t);
        // cross-language: a text generated for one language through the others
        if r.chance(1, 6) { let t = gen_fit(&mut r, 2, gen_template); revset_text(out, &cx, &al, &t); fileset_text(out, &cx, &al, &t); }
        if r.chance(1, 6) { let t = gen_fit(&mut r, 2, gen_revset); template_text(out, &al, &t); fileset_text(out, &cx, &al, &t); }
    }

    // 2b. alias expansion against the abstract model
    let mut r2 = cfg.rng(3636);
    if aliases_safe { for _ in 0..cfg.n(1500, 20_000) { alias_cases(&mut r2, out); } }

    // 3. moderate nesting, exactly at the depths where the real parser is still fast (≤ 8 parentheses)
    for depth in 1..=8usize {
        let inner = "a";
        let parens = format!("{}{inner}{}", "(".repeat(depth), ")".repeat(depth));
        revset_text(out, &cx, &empty, &parens);
        fileset_text(out, &cx, &empty, &parens);
        template_text(out, &empty, &parens);
        let calls = format!("{}{inner}{}", "f(".repeat(depth), ")".repeat(depth));
        revset_text(out, &cx, &empty, &calls);
        fileset_text(out, &cx, &empty, &calls);
        template_text(out, &empty, &calls);
        let unbalanced = format!("{}{inner}{}", "(".repeat(depth), ")".repeat(depth - 1));
        revset_text(out, &cx, &empty, &unbalanced);
        template_text(out, &empty, &unbalanced);
    }
    // operator chains that are long but far from the stack limit, in-process
    for n in [50usize, 300] {
        for kind in ["prefix", "postfix", "infix", "union"] {
            let t = deep_text(kind, n).unwrap();
            answer(out, "revset", "program", &t, guard(|| revset::parse_program(&t).map(|_| ()).map_err(|e| rs_syntax(&e))));
        }
        let t = format!("{}a", "!".repeat(n));
        answer(out, "template", "program", &t, guard(|| template_parser::parse_template(&t).map(|_| ()).map_err(|e| tp_syntax(&e))));
        let t = format!("{}a", "~".repeat(n));
        let ctx0 = FilesetParseContext { aliases_map: &cx.empty_fs, path_converter: &cx.conv };
        answer(out, "fileset", "program", &t, guard(|| { let mut d = FilesetDiagnostics::new(); fileset::parse(&mut d, &t, &ctx0).map(|_| ()).map_err(|e| fs_syntax(&e)) }));
    }

    // 4. stack: operator chains in a child process (an abort cannot be caught in-process)
    if cfg.only.is_none() {
        // below 10 kB: must parse
        for (kind, n) in [("prefix", 3_000usize), ("postfix", 9_000), ("infix", 2_400)] { deep_case(out, kind, n); }
        // 100 kB – 1 MB: known to overflow (F3)
        let giants: &[(&str, usize)] = if cfg.tier == Tier::Quick { &[("prefix", 100_000), ("postfix", 500_000), ("infix", 250_000)] }
            else { &[("prefix", 200_000), ("postfix", 1_000_000), ("infix", 250_000), ("union", 250_000), ("prefix", 100_000), ("infix", 1_000_000)] };
        for (kind, n) in giants { deep_case(out, kind, *n); }
    }
}
