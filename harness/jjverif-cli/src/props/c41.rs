//! C41 — undo and restore return the repository to the earlier state.
//!
//! Random command sequences through the **real jj binary** (`JJ_VERIF_JJ_BIN`, built from /repo's
//! working tree) in temporary repositories: new / describe / commit / bookmark set+delete / tag
//! set+delete / abandon / squash / rebase / edit / file edits (snapshots) / git export / workspace add /
//! concurrent operations (`--at-op`), with `undo`, `redo`, `op restore [--what]`, `op revert` at
//! random points.  After every command the operation log and the stored views are read in-process
//! with jj-lib (no `jj log` parsing).
//!
//! Correspondence: for every undo / redo / restore / revert the request carries the operation log
//! (parents, undo/redo description targets, the seven view portions interned to small numbers) and
//! the model predicts: error kind, "nothing changed", or description target + view of the new
//! operation (+ `newwc` when the restored working-copy commit is immutable under the command's
//! configuration; then heads/wc are printed as they were before the new commit was put on top).
//!
//! Oracle (from the property text, independent of the model): a text-editor undo/redo machine
//! over the repo states (heads, local bookmarks, tags, working-copy pointers) of the regular
//! operations: undo must produce the previous state, redo the undone one; `op restore X` the
//! state recorded by X; `op revert <latest>` the state before it.  Only difference allowed: a new
//! commit on top of a restored working-copy commit that is immutable.
use crate::rt::*;
use jj_lib::backend::CommitId;
use jj_lib::object_id::ObjectId as _;
use jj_lib::op_store::{self, OperationId};
use jj_lib::repo::RepoLoader;
use pollster::FutureExt as _;
use std::collections::{BTreeSet, HashMap};
use std::path::{Path, PathBuf};
use std::process::Command;

// ---------------------------------------------------------------------------------------------
// running jj

struct Jj { bin: PathBuf, base: PathBuf, repo: PathBuf, n: u64 }

impl Jj {
    fn run_in(&mut self, dir: &Path, args: &[String]) -> (bool, String) {
        self.n += 1;
        let secs = self.n;
        let ts = format!("2001-02-03T{:02}:{:02}:{:02}+07:00", 4 + secs / 3600, (secs / 60) % 60, secs % 60);
        let mut cmd = Command::new(&self.bin);
        cmd.current_dir(dir).env_clear()
            .env("PATH", std::env::var_os("PATH").unwrap_or_default())
            .env("HOME", self.base.join("home")).env("TMPDIR", self.base.join("tmp"))
            .env("COLUMNS", "100")
            .env("GIT_CONFIG_SYSTEM", "/dev/null").env("GIT_CONFIG_GLOBAL", "/dev/null")
            .env("GIT_CONFIG_COUNT", "1").env("GIT_CONFIG_KEY_0", "init.defaultBranch").env("GIT_CONFIG_VALUE_0", "master")
            .env("JJ_CONFIG", self.base.join("config.toml"))
            .env("JJ_USER", "Test User").env("JJ_EMAIL", "test.user@example.com")
            .env("JJ_OP_HOSTNAME", "host.example.com").env("JJ_OP_USERNAME", "test-username")
            .env("JJ_TZ_OFFSET_MINS", "660")
            .env("JJ_RANDOMNESS_SEED", self.n.to_string())
            .env("JJ_TIMESTAMP", &ts).env("JJ_OP_TIMESTAMP", &ts);
        cmd.arg("--no-pager").args(args);
        match cmd.output() {
            Ok(o) => (o.status.success(), String::from_utf8_lossy(&o.stderr).into_owned()),
            Err(e) => (false, format!("spawn failed: {e}")),
        }
    }
    fn run(&mut self, args: &[String]) -> (bool, String) { let d = self.repo.clone(); self.run_in(&d, args) }
}

fn sv(xs: &[&str]) -> Vec<String> { xs.iter().map(|s| s.to_string()).collect() }

// ---------------------------------------------------------------------------------------------
// reading the operation log in-process

#[derive(Clone, Copy, PartialEq, Eq, Debug)]
enum Desc { Regular, Undo(usize), Redo(usize) }

#[derive(Clone, PartialEq, Eq, Debug)]
struct RepoState { heads: BTreeSet<CommitId>, bookmarks: String, tags: String, wc: std::collections::BTreeMap<String, CommitId> }

/// `base`: the repo state (heads, local bookmarks, tags, working-copy pointers) recorded by the operation
struct OpInfo { id: OperationId, parents: Vec<usize>, desc: Desc, text: String, view: op_store::View, pv: [u64; 7], base: RepoState }

#[derive(Default)]
struct Log { ops: Vec<OpInfo>, by_id: HashMap<OperationId, usize>, intern: [HashMap<String, u64>; 7] }

const UNDO_PREFIX: &str = "undo: restore to operation ";
const REDO_PREFIX: &str = "redo: restore to operation ";

fn sorted_heads(v: &op_store::View) -> Vec<CommitId> { let mut h: Vec<CommitId> = v.head_ids.iter().cloned().collect(); h.sort(); h }

fn portions(v: &op_store::View) -> [String; 7] {
    // a remote view without bookmarks and tags is the same as no remote view (a merge leaves such husks behind)
    let remotes: std::collections::BTreeMap<_, _> = v.remote_views.iter().filter(|(_, rv)| !(rv.bookmarks.is_empty() && rv.tags.is_empty())).collect();
    [format!("{:?}", sorted_heads(v)), format!("{:?}", v.local_bookmarks), format!("{:?}", v.local_tags), format!("{:?}", remotes),
     format!("{:?}", v.git_refs), format!("{:?}", v.git_heads), format!("{:?}", v.wc_commit_ids)]
}

impl Log {
    fn intern(&mut self, p: &[String; 7]) -> [u64; 7] {
        let mut r = [0u64; 7];
        for i in 0..7 { let n = self.intern[i].len() as u64; r[i] = *self.intern[i].entry(p[i].clone()).or_insert(n); }
        r
    }
    /// read operations not seen yet (parents first); returns the current op heads as indices
    fn refresh(&mut self, loader: &RepoLoader) -> Vec<usize> {
        let heads = loader.op_heads_store().get_op_heads().block_on().unwrap();
        let mut order: Vec<jj_lib::operation::Operation> = vec![];
        // depth-first post-order from the heads over unseen operations
        fn visit(loader: &RepoLoader, id: &OperationId, log: &Log, seen: &mut BTreeSet<OperationId>, order: &mut Vec<jj_lib::operation::Operation>) {
            if log.by_id.contains_key(id) || !seen.insert(id.clone()) { return; }
            let op = loader.load_operation(id).block_on().unwrap();
            for p in op.parent_ids() { visit(loader, p, log, seen, order); }
            order.push(op);
        }
        let mut seen = BTreeSet::new();
        let mut hs = heads.clone(); hs.sort();
        for h in &hs { visit(loader, h, self, &mut seen, &mut order); }
        for op in order {
            let view = op.view().block_on().unwrap().store_view().clone();
            let text = op.metadata().description.clone();
            let find = |hex: &str, log: &Log| OperationId::try_from_hex(hex).and_then(|id| log.by_id.get(&id).copied());
            let desc = if let Some(hex) = text.strip_prefix(UNDO_PREFIX) { Desc::Undo(find(hex, self).expect("undo target not in log")) }
                else if let Some(hex) = text.strip_prefix(REDO_PREFIX) { Desc::Redo(find(hex, self).expect("redo target not in log")) }
                else { Desc::Regular };
            let p = portions(&view);
            let pv = self.intern(&p);
            let state = state_of(&view);
            let parents = op.parent_ids().iter().map(|p| self.by_id[p]).collect();
            self.by_id.insert(op.id().clone(), self.ops.len());
            self.ops.push(OpInfo { id: op.id().clone(), parents, desc, text, view, pv, base: state });
        }
        hs.iter().map(|h| self.by_id[h]).collect()
    }
    fn show(&self, upto: usize) -> String {
        self.ops[..upto].iter().map(|o| {
            let ps: Vec<u64> = o.parents.iter().map(|p| *p as u64).collect();
            let d = match o.desc { Desc::Regular => "r".to_string(), Desc::Undo(t) => format!("u{t}"), Desc::Redo(t) => format!("d{t}") };
            format!("{}/{}/{}", show_list(&ps), d, show_list(&o.pv))
        }).collect::<Vec<_>>().join("|")
    }
}

fn state_of(v: &op_store::View) -> RepoState {
    RepoState { heads: v.head_ids.iter().cloned().collect(), bookmarks: format!("{:?}", v.local_bookmarks), tags: format!("{:?}", v.local_tags),
                wc: v.wc_commit_ids.iter().map(|(k, c)| (format!("{k:?}"), c.clone())).collect() }
}

/// The permitted difference factored out: `exc` maps every commit that jj put on top of an immutable restored
/// working-copy commit (shape checked when it happened) to that commit; a state whose working-copy pointer is such
/// a commit (still a head) is compared as if the pointer were on the restored commit.
fn norm(st: &RepoState, exc: &HashMap<CommitId, CommitId>, loader: &RepoLoader) -> RepoState {
    let mut s = st.clone();
    let names: Vec<String> = s.wc.keys().cloned().collect();
    for name in names {
        // (repeatedly: the restored commit may itself be such a commit from an earlier restore)
        loop {
            let n = s.wc[&name].clone();
            let Some(w) = exc.get(&n) else { break };
            if !s.heads.contains(&n) || s.wc.values().filter(|c| **c == n).count() != 1 { break; }
            s.wc.insert(name.clone(), w.clone());
            s.heads.remove(&n);
            if !s.heads.iter().any(|h| is_ancestor(loader, w, h)) { s.heads.insert(w.clone()); }
        }
    }
    s
}

fn show_desc(d: Desc) -> String { match d { Desc::Regular => "r".into(), Desc::Undo(t) => format!("u{t}"), Desc::Redo(t) => format!("d{t}") } }

fn open_loader(repo: &Path) -> RepoLoader {
    let settings = testutils::user_settings();
    RepoLoader::init_from_file_system(&settings, &repo.join(".jj").join("repo"), &jj_lib::default_backend_factories::default_backend_factories()).unwrap()
}

fn visible_commits(loader: &RepoLoader, view: &op_store::View) -> Vec<CommitId> {
    let root = loader.store().root_commit_id().clone();
    let mut seen = BTreeSet::new();
    let mut stack = sorted_heads(view);
    while let Some(id) = stack.pop() {
        if id == root || !seen.insert(id.clone()) { continue; }
        for p in loader.store().get_commit(&id).unwrap().parent_ids() { stack.push(p.clone()); }
    }
    seen.into_iter().collect()
}

fn is_ancestor(loader: &RepoLoader, a: &CommitId, d: &CommitId) -> bool {
    let mut seen = BTreeSet::new();
    let mut stack = vec![d.clone()];
    while let Some(id) = stack.pop() {
        if id == *a { return true; }
        if !seen.insert(id.clone()) { continue; }
        for p in loader.store().get_commit(&id).unwrap().parent_ids() { stack.push(p.clone()); }
    }
    false
}

// ---------------------------------------------------------------------------------------------
// one history

enum Event {
    Case { req: String, resp: String, kind: &'static str, nontrivial: bool },
    OracleOk,
    OracleFail { sig: &'static str, detail: String },
    Tally(&'static str, String),
}

/// text-editor undo/redo over repo states
struct Editor { past: Vec<RepoState>, cur: RepoState, future: Vec<RepoState> }

#[derive(Clone)]
enum Tested { Undo, Redo, Restore { target: usize, what: &'static str }, Revert { target: usize } }

fn classify_err(stderr: &str) -> &'static str {
    if stderr.contains("Cannot undo root operation") || stderr.contains("Cannot revert root operation") { "err:root" }
    else if stderr.contains("Cannot undo a merge operation") || stderr.contains("Cannot revert a merge operation") { "err:merge" }
    else if stderr.contains("Nothing to redo") { "err:nothing" }
    else if stderr.contains("Undo operation should have a single parent") { "err:internal" }
    else { "err:other" }
}

/// A prepared repository (`jj git init` + a few one-operation commands) that the scripted undo/redo words copy
/// instead of re-initialising; `n` = jj invocations spent on it (the copies continue the command clock from there).
struct Template { dir: tempfile::TempDir, n: u64 }

fn init_base(jj_bin: &Path, base_path: &Path) -> Result<Jj, String> {
    std::fs::create_dir_all(base_path.join("home")).unwrap();
    std::fs::create_dir_all(base_path.join("tmp")).unwrap();
    std::fs::write(base_path.join("config.toml"), "[git]\ncolocate = false\n[ui]\ncolor = \"never\"\n").unwrap();
    let mut jj = Jj { bin: jj_bin.to_path_buf(), base: base_path.to_path_buf(), repo: base_path.join("repo"), n: 0 };
    let (ok, err) = jj.run_in(base_path, &sv(&["git", "init", "repo"]));
    if ok { Ok(jj) } else { Err(err) }
}

fn make_template(jj_bin: &Path, tmp_root: &Path) -> Result<Template, String> {
    let dir = tempfile::Builder::new().prefix("jjverif-c41-tpl-").tempdir_in(tmp_root).unwrap();
    let mut jj = init_base(jj_bin, dir.path())?;
    // the `c c c` prefix of every word: three operations with three different visible states
    for args in [sv(&["new", "-m", "t1"]), sv(&["bookmark", "set", "-B", "tb", "-r", "@"]), sv(&["commit", "-m", "t3"])] {
        let (ok, err) = jj.run(&args);
        if !ok { return Err(err); }
    }
    Ok(Template { n: jj.n, dir })
}

fn copy_dir(from: &Path, to: &Path) {
    std::fs::create_dir_all(to).unwrap();
    for e in std::fs::read_dir(from).unwrap() {
        let e = e.unwrap();
        let ft = e.file_type().unwrap();
        let dst = to.join(e.file_name());
        if ft.is_dir() { copy_dir(&e.path(), &dst); }
        else if ft.is_symlink() { std::os::unix::fs::symlink(std::fs::read_link(e.path()).unwrap(), &dst).unwrap(); }
        else { std::fs::copy(e.path(), &dst).unwrap(); }
    }
}

/// The deterministic family run before the random histories: every word `c c c w` with `w` over
/// {u = `jj undo`, r = `jj redo`, c = a command that creates exactly one operation and a new visible state},
/// 4 ≤ |w| ≤ `max_len`, that never redoes with an empty redo stack, has ≥ 2 `u` and ≥ 1 `r`, starts with `u`
/// (a leading `c` only lengthens the prefix) and ends with `u`/`r` (a trailing `c` is checked by nothing).
/// Every step of a word is checked, so only the prefix-maximal words are run.
fn scripted_words(max_len: usize) -> Vec<String> {
    let mut words: Vec<String> = vec![];
    for len in 4..=max_len {
        let mut idx = vec![0usize; len];
        'all: loop {
            let w: String = idx.iter().map(|i| ['u', 'r', 'c'][*i]).collect();
            let mut fut = 0usize;
            let mut valid = true;
            for ch in w.chars() { match ch { 'u' => fut += 1, 'r' => if fut == 0 { valid = false; break } else { fut -= 1 }, _ => fut = 0 } }
            if valid && w.starts_with('u') && !w.ends_with('c') && w.matches('u').count() >= 2 && w.contains('r') { words.push(w); }
            let mut k = len;
            loop { if k == 0 { break 'all; } k -= 1; idx[k] += 1; if idx[k] < 3 { break; } idx[k] = 0; }
        }
    }
    let all = words.clone();
    words.retain(|w| !all.iter().any(|o| o.len() > w.len() && o.starts_with(w.as_str())));
    words
}

/// One history: `steps` random commands in a fresh repository, or (with `script`) the word's commands in a copy of the template.
fn history(jj_bin: &Path, tmp_root: &Path, h: u64, mut r: Rng, steps: usize, trace: bool, script: Option<(&Template, &str)>) -> Vec<Event> {
    let mut ev: Vec<Event> = vec![];
    let base = tempfile::Builder::new().prefix("jjverif-c41-").tempdir_in(tmp_root).unwrap();
    let base_path = base.path().to_path_buf();
    let word: Option<Vec<u8>> = script.map(|(_, w)| w.as_bytes().to_vec());
    let steps = word.as_ref().map_or(steps, |w| w.len());
    let mut jj = match script {
        Some((tpl, _)) => {
            copy_dir(tpl.dir.path(), &base_path);
            Jj { bin: jj_bin.to_path_buf(), base: base_path.clone(), repo: base_path.join("repo"), n: tpl.n }
        }
        None => match init_base(jj_bin, &base_path) {
            Ok(jj) => jj,
            Err(err) => { ev.push(Event::OracleFail { sig: "undo:harness-cannot-init", detail: err }); return ev; }
        },
    };
    // label used in failure details
    let h: String = match script { Some((_, w)) => format!("{h} (scripted word ccc{w})"), None => h.to_string() };

    let mut log = Log::default();
    let loader = open_loader(&jj.repo);
    let heads = log.refresh(&loader);
    assert_eq!(heads.len(), 1);
    // the editor machine replays every operation from the root
    let mut ed = Editor { past: vec![], cur: log.ops[0].base.clone(), future: vec![] };
    for op in &log.ops[1..] { ed.past.push(ed.cur.clone()); ed.cur = op.base.clone(); }
    let mut n_ws = 0;
    let mut msg = 0;
    let mut exc: HashMap<CommitId, CommitId> = HashMap::new();

    for step in 0..steps {
        let loader = open_loader(&jj.repo);
        let head_before = { let hs = log.refresh(&loader); *hs.last().unwrap() };
        let n_heads_before = loader.op_heads_store().get_op_heads().block_on().unwrap().len();
        let cur_view = log.ops[head_before].view.clone();
        let vis = visible_commits(&loader, &cur_view);
        let pick = |r: &mut Rng| -> String { if vis.is_empty() { "@".to_string() } else { r.pick(&vis).hex() } };
        let tested: Option<Tested> = if let Some(w) = &word {
            match w[step] { b'u' => Some(Tested::Undo), b'r' => Some(Tested::Redo), _ => None }
        } else if n_heads_before == 1 && log.ops.len() > 3 && r.chance(9, 20) {
            // redo mostly where it can do something (right after an undo / a redo); revert mostly of the latest operation or
            // of an operation that moved neither heads nor working copies (the merges the model covers)
            let after_undo = !matches!(log.ops[head_before].desc, Desc::Regular);
            let quiet: Vec<usize> = (1..log.ops.len()).filter(|i| log.ops[*i].parents.len() == 1 && {
                let p = log.ops[*i].parents[0];
                log.ops[*i].pv[0] == log.ops[p].pv[0] && log.ops[*i].pv[6] == log.ops[p].pv[6] && log.ops[*i].pv[0] == log.ops[head_before].pv[0] }).collect();
            Some(match r.below(20) {
                0..=7 => if after_undo && r.chance(1, 2) { Tested::Redo } else { Tested::Undo },
                8..=9 => Tested::Redo,
                10..=14 => Tested::Restore { target: r.below(log.ops.len()), what: *r.pick(&["rt", "rt", "rt", "r", "t"]) },
                _ => Tested::Revert { target: match r.below(4) { 0 | 1 => head_before, 2 if !quiet.is_empty() => *r.pick(&quiet), _ => r.below(log.ops.len()) } },
            })
        } else { None };

        // sometimes edit a file first: the command then snapshots the working copy before doing its own work
        let edit_file = word.is_none() && r.chance(1, if tested.is_some() { 8 } else { 4 });
        if edit_file { std::fs::write(jj.repo.join(format!("f{}", r.below(3))), format!("{h}-{}\n", r.next() % 1000)).unwrap(); }

        match tested {
            None => {
                msg += 1;
                let args: Vec<String> = if word.is_some() {
                    // scripted `c`: exactly one operation and a visible state never seen before
                    match r.below(4) {
                        0 => sv(&["new", "-m", &format!("m{msg}")]),
                        1 => sv(&["describe", "-m", &format!("m{msg}")]),
                        2 => sv(&["commit", "-m", &format!("c{msg}")]),
                        _ => sv(&["bookmark", "set", "-B", &format!("s{msg}"), "-r", "@"]),
                    }
                } else { match r.below(17) {
                    0 | 1 => vec!["new".into(), pick(&mut r)],
                    2 => { let a = pick(&mut r); let b = pick(&mut r); if a != b { vec!["new".into(), a, b] } else { vec!["new".into()] } }
                    3 | 4 => vec!["describe".into(), "-r".into(), pick(&mut r), "-m".into(), format!("m{msg}")],
                    5 => vec!["commit".into(), "-m".into(), format!("c{msg}")],
                    6 | 7 => vec!["bookmark".into(), "set".into(), "-B".into(), format!("b{}", r.below(2)), "-r".into(), pick(&mut r)],
                    8 => vec!["bookmark".into(), "delete".into(), format!("b{}", r.below(2))],
                    9 => vec!["abandon".into(), pick(&mut r)],
                    10 => if r.chance(1, 2) { sv(&["squash"]) } else { vec!["squash".into(), "--from".into(), pick(&mut r), "--into".into(), pick(&mut r), "-u".into()] },
                    11 => vec!["rebase".into(), "-r".into(), pick(&mut r), "-d".into(), pick(&mut r)],
                    12 => vec!["edit".into(), pick(&mut r)],
                    13 => if r.chance(2, 3) { vec!["tag".into(), "set".into(), "--allow-move".into(), "-r".into(), pick(&mut r), format!("t{}", r.below(2))] } else { vec!["tag".into(), "delete".into(), format!("t{}", r.below(2))] },
                    14 => if r.chance(1, 2) { sv(&["git", "export"]) } else if n_ws < 1 { n_ws += 1; vec!["workspace".into(), "add".into(), format!("../ws{n_ws}")] } else { sv(&["status"]) },
                    _ => if n_heads_before > 1 { sv(&["status"]) } else if log.ops.len() > 3 && r.chance(3, 4) {
                            // a concurrent operation: run on an older operation; the next command reconciles
                            let at = log.ops[r.range(2, log.ops.len() - 1)].id.hex();
                            vec!["new".into(), "--at-op".into(), at]
                        } else { sv(&["status"]) },
                } };
                let (_ok, _err) = jj.run(&args);
                let loader = open_loader(&jj.repo);
                let before = log.ops.len();
                log.refresh(&loader);
                if trace { eprintln!("[{h}] {} -> new ops {:?}", args.join(" "), (before..log.ops.len()).map(|i| format!("{i}:{}", log.ops[i].text.chars().take(50).collect::<String>())).collect::<Vec<_>>()); }
                for op in &log.ops[before..] {
                    // every new operation here is a regular one for the editor machine
                    ed.past.push(ed.cur.clone()); ed.cur = op.base.clone(); ed.future.clear();
                }
                ev.push(Event::Tally("regular-command", format!("{}{}", args[0], if log.ops.len() > before { "" } else { " (no operation)" })));
            }
            Some(t) => {
                // the documented exception: make every commit immutable for this command, so that the restored working-copy
                // commit is immutable whatever it is (never together with a pending file edit: the snapshot would hit it first)
                let want_imm = word.is_none() && !edit_file && r.chance(1, 6);
                let mut args: Vec<String> = match &t {
                    Tested::Undo => sv(&["undo"]),
                    Tested::Redo => sv(&["redo"]),
                    Tested::Restore { target, what } => {
                        let mut a = vec!["op".into(), "restore".into(), log.ops[*target].id.hex()];
                        match *what { "r" => a.extend(sv(&["--what", "repo"])), "t" => a.extend(sv(&["--what", "remote-tracking"])), _ => {} }
                        a
                    }
                    Tested::Revert { target } => vec!["op".into(), "revert".into(), log.ops[*target].id.hex()],
                };
                if want_imm { args.push("--config=revset-aliases.'immutable_heads()'='all()'".to_string()); }
                let (ok, stderr) = jj.run(&args);
                let loader = open_loader(&jj.repo);
                let before = log.ops.len();
                log.refresh(&loader);
                if trace { eprintln!("[{h}] TESTED {} -> ok={ok} new ops {:?}\n    {}", args.join(" "), (before..log.ops.len()).map(|i| format!("{i}:{}", log.ops[i].text.chars().take(50).collect::<String>())).collect::<Vec<_>>(), stderr.replace('\n', "\n    ")); }
                // new operations: an optional snapshot, then the command's own operation
                let own_prefix = match &t { Tested::Undo => UNDO_PREFIX, Tested::Redo => REDO_PREFIX, Tested::Restore { .. } => "restore to operation ", Tested::Revert { .. } => "revert operation " };
                let new_ops: Vec<usize> = (before..log.ops.len()).collect();
                let own: Option<usize> = new_ops.iter().copied().find(|i| log.ops[*i].text.starts_with(own_prefix));
                // the operation the command started from
                let head = match own { Some(i) => log.ops[i].parents[0], None => *new_ops.last().unwrap_or(&head_before) };
                for i in &new_ops { if Some(*i) != own { ed.past.push(ed.cur.clone()); ed.cur = log.ops[*i].base.clone(); ed.future.clear(); } }
                // ---- the implementation's answer
                let became_immutable = stderr.contains("The working-copy commit became immutable");
                let mut exception_ok = true;
                let resp = if !ok { classify_err(&stderr).to_string() } else {
                    match own {
                        None => if stderr.contains("Nothing changed") { "nochange".to_string() } else { format!("ok-without-operation:{}", stderr.lines().next().unwrap_or("").replace(' ', "_")) },
                        Some(i) => {
                            let o_view = log.ops[i].view.clone();
                            let o_desc = log.ops[i].desc;
                            let o_pv = log.ops[i].pv;
                            struct O { view: op_store::View, desc: Desc, pv: [u64; 7] }
                            let o = O { view: o_view, desc: o_desc, pv: o_pv };
                            if became_immutable {
                                // print heads / wc as they were before the new commit was put on top of the restored one
                                let new_wc = o.view.wc_commit_ids.values().next().cloned();
                                let mut pre = o.view.clone();
                                let mut pattern = false;
                                if let Some(n) = new_wc {
                                    let nc = loader.store().get_commit(&n).unwrap();
                                    if nc.parent_ids().len() == 1 {
                                        let w = nc.parent_ids()[0].clone();
                                        let wcommit = loader.store().get_commit(&w).unwrap();
                                        let same_tree = nc.tree_ids() == wcommit.tree_ids();
                                        let fresh = !log.ops[..i].iter().any(|p| p.view.head_ids.contains(&n) || p.view.wc_commit_ids.values().any(|x| *x == n));
                                        // the restored commit really is immutable: everything is (this command's configuration), or it is at or below a tag
                                        let immutable = want_imm || o.view.local_tags.values().any(|t| t.added_ids().any(|tid| is_ancestor(&loader, &w, tid)));
                                        pattern = same_tree && fresh && immutable && o.view.head_ids.contains(&n);
                                        let name = o.view.wc_commit_ids.keys().next().unwrap().clone();
                                        pre.wc_commit_ids.insert(name, w.clone());
                                        if pattern { exc.insert(n.clone(), w.clone()); }
                                        pre.head_ids.remove(&n);
                                        if !pre.head_ids.iter().any(|hd| is_ancestor(&loader, &w, hd)) { pre.head_ids.insert(w); }
                                    }
                                }
                                exception_ok = pattern;
                                let pv = log.intern(&portions(&pre));
                                format!("ok/{}/{}/newwc", show_desc(o.desc), show_list(&pv))
                            } else {
                                format!("ok/{}/{}", show_desc(o.desc), show_list(&o.pv))
                            }
                        }
                    }
                };
                // is the restored working-copy commit immutable under the command's configuration?  (input of the model)
                // input of the model: the working-copy portions whose commit (for the workspace running the command) is
                // immutable under this command's configuration — with `immutable_heads()=all()` every portion that has one
                let imm: String = if !want_imm { "-".to_string() } else {
                    let mut ids: Vec<u64> = log.ops.iter().filter(|o| o.view.wc_commit_ids.keys().any(|k| k.as_str() == "default")).map(|o| o.pv[6]).collect();
                    ids.sort(); ids.dedup();
                    show_list(&ids)
                };
                let upto = match own { Some(i) => i, None => log.ops.len() };
                let logtxt = log.show(upto);
                let (req, kind): (String, &'static str) = match &t {
                    Tested::Undo => (format!("undo {head} {imm} {logtxt}"), "undo"),
                    Tested::Redo => (format!("redo {head} {imm} {logtxt}"), "redo"),
                    Tested::Restore { target, what } => (format!("restore {head} {target} {what} {imm} {logtxt}"), "restore"),
                    Tested::Revert { target } => (format!("revert {head} {target} rt {imm} {logtxt}"), "revert"),
                };
                // revert outside the modelled merges: the harness evaluates the same side condition as `mergeView`
                let resp = if let Tested::Revert { target } = &t {
                    let modelled = log.ops[*target].parents.len() != 1 || {
                        let (c, b, o) = (log.ops[head].pv, log.ops[*target].pv, log.ops[log.ops[*target].parents[0]].pv);
                        c == b || (b[0] == o[0] && c[0] == b[0] && b[6] == o[6] && (1..6).all(|k| c[k] == b[k] || b[k] == o[k]))
                    };
                    if modelled { resp } else { "unmodelled".to_string() }
                } else { resp };
                let nontrivial = resp.starts_with("ok/");
                ev.push(Event::Tally("outcome", format!("{kind}:{}", resp.split('/').next().unwrap())));
                if resp.ends_with("/newwc") { ev.push(Event::Tally("exception", "new-commit-on-immutable-wc".into())); }
                ev.push(Event::Case { req, resp: resp.clone(), kind, nontrivial });

                // ---- the oracle
                let actual = own.map(|i| log.ops[i].base.clone());
                let check_state = |ev: &mut Vec<Event>, what: &'static str, expected: &RepoState, sig: &'static str| {
                    // state after the command: the new operation's, or unchanged
                    let got = actual.clone().unwrap_or_else(|| log.ops[head].base.clone());
                    // (`base`: the documented exception — a new commit on top of an immutable restored working-copy commit — is
                    // already factored out, after checking that it has exactly that shape)
                    if became_immutable && !exception_ok {
                        ev.push(Event::OracleFail { sig: "undo:new-commit-not-the-permitted-exception", detail: format!("history {h}: after `{what}` ({}): {}", args.join(" "), stderr.replace('\n', " | ")) });
                        return;
                    }
                    let (got, expected) = (norm(&got, &exc, &loader), norm(expected, &exc, &loader));
                    if got == expected { ev.push(Event::OracleOk); return; }
                    ev.push(Event::OracleFail { sig, detail: format!("history {h}: after `{what}` ({}) expected heads={:?} bookmarks={} tags={} wc={:?}, got heads={:?} bookmarks={} tags={} wc={:?}; stderr: {}",
                        args.join(" "), expected.heads, expected.bookmarks, expected.tags, expected.wc, got.heads, got.bookmarks, got.tags, got.wc, stderr.replace('\n', " | ")) });
                };
                match &t {
                    Tested::Undo => {
                        if ok {
                            match ed.past.last().cloned() {
                                Some(prev) => {
                                    check_state(&mut ev, "undo", &prev, "undo:state-differs-from-before");
                                    if own.is_some() { ed.past.pop(); ed.future.push(ed.cur.clone()); ed.cur = log.ops[own.unwrap()].base.clone(); }
                                }
                                None => ev.push(Event::OracleFail { sig: "undo:succeeded-with-nothing-to-undo", detail: format!("history {h}: undo succeeded at the root state") }),
                            }
                        } else if resp == "err:root" && !ed.past.is_empty() {
                            ev.push(Event::OracleFail { sig: "undo:refused-although-earlier-state-exists", detail: format!("history {h}: {stderr}") });
                        } else if resp == "err:other" {
                            ev.push(Event::OracleFail { sig: "undo:unexpected-error", detail: format!("history {h}: {stderr}") });
                        } else { ev.push(Event::OracleOk); }
                    }
                    Tested::Redo => {
                        if ok {
                            match ed.future.last().cloned() {
                                Some(next) => {
                                    check_state(&mut ev, "redo", &next, "redo:state-differs-from-undone");
                                    if own.is_some() { ed.future.pop(); ed.past.push(ed.cur.clone()); ed.cur = log.ops[own.unwrap()].base.clone(); }
                                }
                                None => ev.push(Event::OracleFail { sig: "redo:succeeded-with-nothing-undone", detail: format!("history {h}: redo succeeded with an empty redo stack") }),
                            }
                        } else if resp == "err:nothing" && !ed.future.is_empty() {
                            ev.push(Event::OracleFail { sig: "redo:refused-although-undone-state-exists", detail: format!("history {h}: {stderr}") });
                        } else if resp != "err:nothing" {
                            ev.push(Event::OracleFail { sig: "redo:unexpected-error", detail: format!("history {h}: {stderr}") });
                        } else { ev.push(Event::OracleOk); }
                    }
                    Tested::Restore { target, what } => {
                        if !ok { ev.push(Event::OracleFail { sig: "restore:failed", detail: format!("history {h}: {stderr}") }); }
                        else {
                            if what.contains('r') { check_state(&mut ev, "op restore", &log.ops[*target].base.clone(), "restore:state-differs-from-target"); }
                            else { check_state(&mut ev, "op restore --what remote-tracking", &log.ops[head].base.clone(), "restore:repo-portion-touched"); }
                            if let Some(i) = own { ed.past.push(ed.cur.clone()); ed.cur = log.ops[i].base.clone(); ed.future.clear(); }
                        }
                    }
                    Tested::Revert { target } => {
                        if ok {
                            if *target == head && log.ops[head].parents.len() == 1 {
                                let parent_state = log.ops[log.ops[head].parents[0]].base.clone();
                                check_state(&mut ev, "op revert <latest>", &parent_state, "revert:latest-differs-from-undo");
                            }
                            if let Some(i) = own { ed.past.push(ed.cur.clone()); ed.cur = log.ops[i].base.clone(); ed.future.clear(); }
                        } else if resp == "err:other" && !stderr.contains("immutable") {
                            ev.push(Event::OracleFail { sig: "revert:unexpected-error", detail: format!("history {h}: {stderr}") });
                        }
                    }
                }
            }
        }
    }
    ev
}

pub fn run(cfg: &Cfg, out: &mut Out) {
    let Some(jj_bin) = std::env::var_os("JJ_VERIF_JJ_BIN").map(PathBuf::from) else {
        out.oracle_fail("undo:harness-no-jj-binary", "JJ_VERIF_JJ_BIN is not set".into());
        return;
    };
    testutils::hermetic_git();
    let tmp_root: PathBuf = if Path::new("/dev/shm").is_dir() { "/dev/shm".into() } else { std::env::temp_dir() };
    let n_hist = cfg.n(24, 300);
    let steps = 22;
    // scripted undo/redo words first (ids 1000000 + index), then the random histories (ids 0..n_hist)
    let words = scripted_words(if cfg.tier == Tier::Quick { 6 } else { 7 });
    let template = match make_template(&jj_bin, &tmp_root) {
        Ok(t) => t,
        Err(e) => { out.oracle_fail("undo:harness-cannot-init", format!("template: {e}")); return; }
    };
    const WORD_BASE: u64 = 1_000_000;
    let tasks: Vec<(u64, Option<&str>)> = words.iter().enumerate().map(|(i, w)| (WORD_BASE + i as u64, Some(w.as_str())))
        .chain((0..n_hist).map(|h| (h, None))).collect();
    let threads: usize = std::env::var("RAYON_NUM_THREADS").ok().and_then(|s| s.parse().ok()).unwrap_or(8).clamp(1, 16);
    let next = std::sync::atomic::AtomicU64::new(0);
    let results: std::sync::Mutex<Vec<(u64, Vec<Event>)>> = std::sync::Mutex::new(vec![]);
    std::thread::scope(|s| {
        for _ in 0..threads {
            s.spawn(|| loop {
                let pos = next.fetch_add(1, std::sync::atomic::Ordering::SeqCst);
                if pos >= tasks.len() as u64 { break; }
                let (h, word) = tasks[pos as usize];
                if let Some(only) = cfg.only { if h != only { continue; } }
                let script = word.map(|w| (&template, w));
                let mut ev = match guard(|| history(&jj_bin, &tmp_root, h, cfg.rng(1000 + h), steps, cfg.only.is_some(), script)) {
                    Ok(ev) => ev,
                    Err(e) => vec![Event::OracleFail { sig: "undo:harness-panic", detail: format!("history {h}: {e}") }],
                };
                if word.is_some() { ev.push(Event::Tally("scripted", "words".into())); }
                results.lock().unwrap().push((pos, ev));
            });
        }
    });
    let mut results = results.into_inner().unwrap();
    results.sort_by_key(|(h, _)| *h);
    for (_, evs) in results {
        for e in evs {
            match e {
                Event::Case { req, resp, kind, nontrivial } => {
                    out.case(&req, &resp);
                    out.tally("command", kind);
                    if nontrivial { out.nontrivial(req); }
                }
                Event::OracleOk => out.oracle_ok(),
                Event::OracleFail { sig, detail } => out.oracle_fail(sig, detail),
                Event::Tally(c, k) => out.tally(c, &k),
            }
        }
    }
    out.note(format!("{} scripted undo/redo words (ccc + 4..{} of u/r/c, prefix-maximal) in copies of a template repository, then {n_hist} histories of {steps} commands, through the real jj binary on {threads} threads; operation log and views read in-process",
        words.len(), if cfg.tier == Tier::Quick { 6 } else { 7 }));
}
