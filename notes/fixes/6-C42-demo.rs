// Demonstration for C42 `unguarded-wc:commit`.
//
// `jj commit` doesn't check that the working-copy commit is rewritable. If the
// working-copy commit became immutable (here: it was tagged from another
// workspace), `jj commit` rewrites it without `--ignore-immutable`, whereas
// e.g. `jj describe` refuses to.

use crate::common::TestEnvironment;

#[test]
fn test_commit_immutable_working_copy_commit() {
    let test_env = TestEnvironment::default();
    test_env.run_jj_in(".", ["git", "init", "main"]).success();
    let main_dir = test_env.work_dir("main");
    let secondary_dir = test_env.work_dir("secondary");

    main_dir.write_file("a", "a");
    main_dir.run_jj(["commit", "-m=c1"]).success();
    main_dir
        .run_jj(["workspace", "add", "../secondary"])
        .success();
    secondary_dir.write_file("f", "x");
    secondary_dir.run_jj(["status"]).success();

    // Make the working-copy commit of the secondary workspace immutable.
    main_dir
        .run_jj(["tag", "set", "v1", "-r=secondary@"])
        .success();
    let get_commit_id = |rev: &str| {
        main_dir
            .run_jj(["log", "--no-graph", "-r", rev, "-T", "commit_id"])
            .success()
            .stdout
            .into_raw()
    };
    let tagged_commit_id = get_commit_id("v1");
    assert_eq!(get_commit_id("secondary@"), tagged_commit_id);

    // Other commands refuse to rewrite it.
    let output = secondary_dir.run_jj(["describe", "-m=y"]);
    assert!(!output.status.success());
    assert!(output.stderr.raw().contains("is immutable"), "{output}");

    // `jj commit` should refuse to rewrite it, too.
    let output = secondary_dir.run_jj(["commit", "-m=y"]);
    assert!(!output.status.success(), "{output}");
    assert!(output.stderr.raw().contains("is immutable"), "{output}");
    assert_eq!(get_commit_id("v1"), tagged_commit_id);
    assert_eq!(get_commit_id("secondary@"), tagged_commit_id);
    assert_eq!(
        get_commit_id(&format!("visible_heads() & {tagged_commit_id}")),
        tagged_commit_id
    );

    // It can still be rewritten explicitly.
    secondary_dir
        .run_jj(["commit", "-m=y", "--ignore-immutable"])
        .success();
}
