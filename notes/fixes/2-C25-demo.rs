// Demonstration for C25/C24 `checkout:panic:file-states-pushed-out-of-order`.
//
// Old tree has `d/x`, new tree has the file `d`. After the last snapshot the
// directory `d` was replaced by a symlink. `TreeState::update()` skips both
// diff entries (`d/x`, then the held-back `d`) and pushes their placeholder
// states in that order, which isn't sorted, so `FileStatesMap::merge_in()`
// trips its `debug_assert!(is_sorted)`.

use jj_lib::file_util::check_symlink_support;
use jj_lib::file_util::symlink_dir;
use jj_lib::repo::Repo as _;
use pollster::FutureExt as _;
use testutils::TestResult;
use testutils::TestWorkspace;
use testutils::commit_with_tree;
use testutils::create_tree;
use testutils::repo_path;

#[test]
fn test_check_out_file_over_directory_replaced_by_symlink() -> TestResult {
    if !check_symlink_support()? {
        eprintln!("Skipping test because symlink isn't supported");
        return Ok(());
    }

    let mut test_workspace = TestWorkspace::init();
    let repo = &test_workspace.repo;
    let workspace_root = test_workspace.workspace.workspace_root().to_owned();

    let dir_file_path = repo_path("d/x");
    let file_path = repo_path("d");
    let tree1 = create_tree(repo, &[(dir_file_path, "contents")]);
    let tree2 = create_tree(repo, &[(file_path, "contents")]);
    let commit1 = commit_with_tree(repo.store(), tree1);
    let commit2 = commit_with_tree(repo.store(), tree2);

    let ws = &mut test_workspace.workspace;
    ws.check_out(repo.op_id().clone(), None, &commit1)
        .block_on()?;

    // Replace the directory "d" by a symlink without snapshotting.
    std::fs::remove_dir_all(workspace_root.join("d"))?;
    symlink_dir("elsewhere", workspace_root.join("d"))?;

    // Checkout doesn't fail (and doesn't panic); both paths are skipped.
    let stats = ws
        .check_out(repo.op_id().clone(), None, &commit2)
        .block_on()?;
    assert_eq!(stats.skipped_files, 2);
    assert!(workspace_root.join("d").is_symlink());
    Ok(())
}

#[test]
fn test_check_out_file_over_directory_replaced_by_file() -> TestResult {
    let mut test_workspace = TestWorkspace::init();
    let repo = &test_workspace.repo;
    let workspace_root = test_workspace.workspace.workspace_root().to_owned();

    let dir_file_path = repo_path("d/x");
    let file_path = repo_path("d");
    let tree1 = create_tree(repo, &[(dir_file_path, "contents")]);
    let tree2 = create_tree(repo, &[(file_path, "contents")]);
    let commit1 = commit_with_tree(repo.store(), tree1);
    let commit2 = commit_with_tree(repo.store(), tree2);

    let ws = &mut test_workspace.workspace;
    ws.check_out(repo.op_id().clone(), None, &commit1)
        .block_on()?;

    // Replace the directory "d" by a regular file without snapshotting.
    std::fs::remove_dir_all(workspace_root.join("d"))?;
    std::fs::write(workspace_root.join("d"), "untracked")?;

    let stats = ws
        .check_out(repo.op_id().clone(), None, &commit2)
        .block_on()?;
    assert_eq!(stats.skipped_files, 2);
    assert_eq!(std::fs::read(workspace_root.join("d"))?, b"untracked");
    Ok(())
}
