// Demonstration for C23 (F-C23-1)
// `snapshot:error:tracked-path-below-ignored-dir-parent-not-a-directory`.
//
// A tracked file lives below a .gitignore'd directory, so the snapshot stats
// it directly instead of finding it by walking the directory. When the parent
// directory of the tracked file is replaced by a regular file, lstat() fails
// with ENOTDIR instead of ENOENT and the whole snapshot fails with "Failed to
// stat file". The tracked file is gone in both cases.

use jj_lib::repo::Repo as _;
use pollster::FutureExt as _;
use testutils::TestResult;
use testutils::TestWorkspace;
use testutils::assert_tree_eq;
use testutils::commit_with_tree;
use testutils::create_tree;
use testutils::repo_path;

#[test]
fn test_gitignores_ignored_directory_tracked_file_parent_replaced_by_file() -> TestResult {
    let mut test_workspace = TestWorkspace::init();
    let workspace_root = test_workspace.workspace.workspace_root().to_owned();
    let repo = test_workspace.repo.clone();

    let gitignore_path = repo_path(".gitignore");
    let kept_path = repo_path("ignored/kept");
    let nested_path = repo_path("ignored/dir/file");
    let tree = create_tree(
        &repo,
        &[
            (gitignore_path, "/ignored/\n"),
            (kept_path, "contents"),
            (nested_path, "contents"),
        ],
    );
    let commit = commit_with_tree(repo.store(), tree);

    let ws = &mut test_workspace.workspace;
    ws.check_out(repo.op_id().clone(), None, &commit)
        .block_on()?;

    // Replace the directory "ignored/dir" by a file. The tracked file
    // "ignored/dir/file" no longer exists, and the new file "ignored/dir" is
    // ignored.
    std::fs::remove_dir_all(workspace_root.join("ignored").join("dir"))?;
    std::fs::write(workspace_root.join("ignored").join("dir"), "new file")?;

    let new_tree = test_workspace.snapshot()?;
    let expected_tree = create_tree(
        &repo,
        &[(gitignore_path, "/ignored/\n"), (kept_path, "contents")],
    );
    assert_tree_eq!(new_tree, expected_tree);

    // Snapshotting again is a no-op.
    let new_tree = test_workspace.snapshot()?;
    assert_tree_eq!(new_tree, expected_tree);
    Ok(())
}
