// Demonstration for C38 (F9)
// `annotate:line-left-unresolved-at-start-after-root-counted-twice`.
//
// Two commits in the annotated range have an edge to the same commit outside
// of the domain. That unresolved root is counted twice, so the walk stops
// early ("no more lines to propagate to ancestors") while another commit still
// has pending lines. Those lines are left at their initial value, i.e.
// unresolved at the starting commit, although the commit that introduced them
// is in the domain.

use std::fmt::Write as _;
use std::sync::Arc;

use jj_lib::annotate::FileAnnotation;
use jj_lib::annotate::FileAnnotator;
use jj_lib::backend::CommitId;
use jj_lib::commit::Commit;
use jj_lib::merged_tree::MergedTree;
use jj_lib::repo::MutableRepo;
use jj_lib::repo::Repo;
use jj_lib::repo_path::RepoPath;
use jj_lib::revset::ResolvedRevsetExpression;
use jj_lib::revset::RevsetExpression;
use pollster::FutureExt as _;
use testutils::CommitBuilderExt as _;
use testutils::TestRepo;
use testutils::TestResult;
use testutils::create_tree;
use testutils::repo_path;

fn create_commit_fn(
    mut_repo: &mut MutableRepo,
) -> impl FnMut(&str, &[&CommitId], MergedTree) -> Commit {
    move |description, parent_ids, tree| {
        let parent_ids = parent_ids.iter().map(|&id| id.clone()).collect();
        mut_repo
            .new_commit(parent_ids, tree)
            .set_description(description)
            .write_unwrap()
    }
}

fn annotate_within(
    repo: &dyn Repo,
    commit: &Commit,
    domain: &Arc<ResolvedRevsetExpression>,
    file_path: &RepoPath,
) -> String {
    let mut annotator = FileAnnotator::from_commit(commit, file_path)
        .block_on()
        .unwrap();
    annotator.compute(repo, domain).block_on().unwrap();
    format_annotation(repo, &annotator.to_annotation())
}

fn format_annotation(repo: &dyn Repo, annotation: &FileAnnotation) -> String {
    let mut output = String::new();
    for (origin, line) in annotation.line_origins() {
        let line_origin = origin.unwrap_or_else(|line_origin| line_origin);
        let line_number = line_origin.line_number + 1;
        let commit = repo.store().get_commit(&line_origin.commit_id).unwrap();
        let desc = commit.description().trim_end();
        let sigil = if origin.is_err() { '*' } else { ' ' };
        write!(output, "{desc}:{line_number}{sigil}: {line}").unwrap();
    }
    output
}

#[test]
fn test_annotate_excluded_commit_reachable_from_two_commits() -> TestResult {
    let test_repo = TestRepo::init();
    let repo = &test_repo.repo;

    let root_commit_id = repo.store().root_commit_id();
    let file_path = repo_path("file");

    // 5    "a b d c"
    // |\
    // | 4  "a d c"
    // 3 |  "a b"
    // |\|
    // 2 |  "b"
    // | 1  "a d"
    // |/
    // 0
    let mut tx = repo.start_transaction();
    let mut create_commit = create_commit_fn(tx.repo_mut());
    let tree1 = create_tree(repo, &[(file_path, "a\nd\n")]);
    let tree2 = create_tree(repo, &[(file_path, "b\n")]);
    let tree3 = create_tree(repo, &[(file_path, "a\nb\n")]);
    let tree4 = create_tree(repo, &[(file_path, "a\nd\nc\n")]);
    let tree5 = create_tree(repo, &[(file_path, "a\nb\nd\nc\n")]);
    let commit1 = create_commit("commit1", &[root_commit_id], tree1);
    let commit2 = create_commit("commit2", &[root_commit_id], tree2);
    let commit3 = create_commit("commit3", &[commit1.id(), commit2.id()], tree3);
    let commit4 = create_commit("commit4", &[commit1.id()], tree4);
    let commit5 = create_commit("commit5", &[commit3.id(), commit4.id()], tree5);
    drop(create_commit);

    let domain = RevsetExpression::all();
    assert_eq!(
        annotate_within(tx.repo(), &commit5, &domain, file_path),
        "commit1:1 : a\ncommit2:1 : b\ncommit1:2 : d\ncommit4:3 : c\n"
    );

    // Exclude commit1, which is a parent of both commit3 and commit4. The
    // lines originating from commit1 are unresolved, but the line "b" still
    // originates from commit2.
    let domain = RevsetExpression::commit(commit1.id().clone())
        .ancestors()
        .negated();
    assert_eq!(
        annotate_within(tx.repo(), &commit5, &domain, file_path),
        "commit1:1*: a\ncommit2:1 : b\ncommit1:2*: d\ncommit4:3 : c\n"
    );
    Ok(())
}
