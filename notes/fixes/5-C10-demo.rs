// Demonstration for C10 `heads:not-normalized:after-add-head-of-root`.
//
// `MutableRepo::add_head(&root_commit)` takes the incremental path of
// `add_heads()` because "all parents are current heads" is vacuously true for
// the parentless root commit. The root commit is then inserted next to the
// existing heads without clearing the "normalized" flag, so the committed view
// has the root commit as a head in addition to its descendants.

use jj_lib::ref_name::WorkspaceName;
use jj_lib::repo::Repo as _;
use maplit::hashset;
use pollster::FutureExt as _;
use testutils::TestRepo;
use testutils::TestResult;
use testutils::write_random_commit;
use testutils::write_random_commit_with_parents;

#[test]
fn test_add_head_root_commit() -> TestResult {
    let test_repo = TestRepo::init();
    let repo = &test_repo.repo;
    let root_commit = repo.store().root_commit();

    let mut tx = repo.start_transaction();
    let commit1 = write_random_commit(tx.repo_mut());
    let repo = tx.commit("test").block_on()?;
    assert_eq!(repo.view().heads(), &hashset! {commit1.id().clone()});

    // The root commit is an ancestor of the existing head, so it shouldn't
    // become a head.
    let mut tx = repo.start_transaction();
    tx.repo_mut().add_head(&root_commit).block_on()?;
    let repo = tx.commit("test").block_on()?;
    assert_eq!(repo.view().heads(), &hashset! {commit1.id().clone()});

    // A child of the root commit added later is a new head, and the root
    // commit still isn't.
    let mut tx = repo.start_transaction();
    let commit2 = write_random_commit_with_parents(tx.repo_mut(), &[&root_commit]);
    let repo = tx.commit("test").block_on()?;
    assert_eq!(
        repo.view().heads(),
        &hashset! {commit1.id().clone(), commit2.id().clone()}
    );
    Ok(())
}

#[test]
fn test_edit_root_commit_keeps_heads_normalized() -> TestResult {
    let test_repo = TestRepo::init();
    let repo = &test_repo.repo;
    let root_commit = repo.store().root_commit();

    let mut tx = repo.start_transaction();
    let commit1 = write_random_commit(tx.repo_mut());
    let repo = tx.commit("test").block_on()?;

    // Editing the root commit is an error, but it adds the head before
    // failing.
    let mut tx = repo.start_transaction();
    let ws_name = WorkspaceName::DEFAULT.to_owned();
    assert!(tx.repo_mut().edit(ws_name, &root_commit).block_on().is_err());
    let repo = tx.commit("test").block_on()?;
    assert_eq!(repo.view().heads(), &hashset! {commit1.id().clone()});
    Ok(())
}
