// Demonstration for C44
// `text:truncate-start-drops-leading-zero-width-chars-of-text-that-fits`.
//
// `write_truncated_start()` skips the zero-width characters at the start of
// the remaining text even if nothing was truncated, so text that fits in
// `max_width` is modified. `write_truncated_end()` and `elide_start()` leave
// such text unchanged.

use std::io::Write as _;

use jj_cli::formatter::FormatRecorder;
use jj_cli::formatter::PlainTextFormatter;
use jj_cli::text_util::elide_start;
use jj_cli::text_util::write_truncated_end;
use jj_cli::text_util::write_truncated_start;

use crate::common::TestEnvironment;

fn truncated_start(content: &str, ellipsis: &str, max_width: usize) -> (String, usize) {
    let mut recorder = FormatRecorder::new(false);
    write!(recorder, "{content}").unwrap();
    let mut ellipsis_recorder = FormatRecorder::new(false);
    write!(ellipsis_recorder, "{ellipsis}").unwrap();
    let mut output = Vec::new();
    let mut formatter = PlainTextFormatter::new(&mut output);
    let width =
        write_truncated_start(&mut formatter, &recorder, &ellipsis_recorder, max_width).unwrap();
    (String::from_utf8(output).unwrap(), width)
}

fn truncated_end(content: &str, ellipsis: &str, max_width: usize) -> (String, usize) {
    let mut recorder = FormatRecorder::new(false);
    write!(recorder, "{content}").unwrap();
    let mut ellipsis_recorder = FormatRecorder::new(false);
    write!(ellipsis_recorder, "{ellipsis}").unwrap();
    let mut output = Vec::new();
    let mut formatter = PlainTextFormatter::new(&mut output);
    let width =
        write_truncated_end(&mut formatter, &recorder, &ellipsis_recorder, max_width).unwrap();
    (String::from_utf8(output).unwrap(), width)
}

#[test]
fn test_write_truncated_start_leading_zero_width_chars() {
    // Text that fits is unchanged.
    assert_eq!(
        truncated_start("\u{301}a", "", 4),
        ("\u{301}a".to_owned(), 1)
    );
    assert_eq!(
        truncated_start("\u{301}a", "", 1),
        ("\u{301}a".to_owned(), 1)
    );
    assert_eq!(
        truncated_start("\u{301}a", "..", 1),
        ("\u{301}a".to_owned(), 1)
    );
    // (The returned width is the width of the whole string, which counts the tab.)
    assert_eq!(truncated_start("\tfoo", "", 10).0, "\tfoo");
    // Same as the other functions
    assert_eq!(truncated_end("\u{301}a", "", 4), ("\u{301}a".to_owned(), 1));
    assert_eq!(elide_start("\u{301}a", "", 4), ("\u{301}a".into(), 1));

    // Zero-width characters following a removed character are still removed.
    assert_eq!(truncated_start("a\u{301}bc", "", 2), ("bc".to_owned(), 2));
    assert_eq!(
        truncated_start("a\u{301}bc", "", 3),
        ("a\u{301}bc".to_owned(), 3)
    );
    assert_eq!(truncated_start("a\u{301}bc", ".", 2), (".c".to_owned(), 2));
}

#[test]
fn test_template_truncate_start_leading_zero_width_chars() {
    let test_env = TestEnvironment::default();
    test_env.run_jj_in(".", ["git", "init", "repo"]).success();
    let work_dir = test_env.work_dir("repo");

    let template = r#"truncate_start(10, "\tfoo") ++ "|" ++ truncate_end(10, "\tfoo") ++ "\n""#;
    let output = work_dir.run_jj(["log", "--no-graph", "-r@", "-T", template]);
    assert!(output.status.success());
    assert_eq!(output.stdout.raw(), "\tfoo|\tfoo\n");
}
